#!/usr/bin/env python3
"""run_mutants.py [ids...]: apply each confirmed seeded change (seeded/<id>/patch.diff) to /repo, run the
targeted queries of the checks that are supposed to catch it (same harnesses / plans as the registered
quick or thorough commands, restricted with --only to keep the loop short), undo the change, and record
the outcome in seeded/<id>/meta.json (detected_by) and seeded/RESULTS.md.  /repo must be clean."""
import json, os, subprocess, sys, re, time
V = "/verif"; R = "/repo"
# mutant -> list of (property, tier, --only regex)
T = {
 "C01-m1": [("C01", "quick", r"m4rm[AB][45]-(16x70x54|17x33x70)-k1$")],
 "C01-m2": [("C01", "quick", r"naive0-(2x5x70|2x70x70|3x70x64)-c1$")],
 "C02-m1": [("C02", "quick", r"gapword-alg[23]"), ("C17", "quick", r"pivot-o-4x(130|200)-sr[01]-b0")],
 "C02-m2": [("C02", "quick", r"pluq-8x198-p3-f0|hybrid-8x198-p3-f0")],
 "C03-m1": [("C03", "quick", r"alg[2345]-8x198-p3|gapword|alg[45]-8x198-p2")],
 "C03-m2": [("C03", "quick", r"ztail")],
 "C04-m1": [("C04", "quick", r"right2-n(3|8|5)-m(65|70|130)")],
 "C04-m2": [("C04", "quick", r"russ1-n130-w70-p5|russ1-n130-w70-p[01]")],
 "C05-m1": [("C02", "thorough", r"kbarB21-k4")],
 "C05-m2": [("C05", "quick", r"invwrap-n(3|8)-b0")],
 "C06-m1": [("C06", "quick", r"solve[01]-(3x5|2x3|4x8)-p5")],
 "C06-m2": [("C06", "quick", r"solve[01]-(3x3|2x3|3x5|5x3)-p2")],
 "C07-m1": [("C07", "quick", r"null64")],
 "C07-m2": [("C07", "thorough", r"k-6x134-p3|gapword"), ("C03", "quick", r"alg[23]-8x198-p3")],
 "C08-m1": [("C08", "quick", r"transpose-(2x200|200x2|2x64|66x64)")],
 "C08-m2": [("C08", "quick", r"extract-l-(65x65|66x130|130x66)")],
 "C09-m1": [("C09", "quick", r"ech2-lastword")],
 "C09-m2": [("C17", "quick", r"pivot-v-4x(65|130|200)"), ("C09", "quick", r"obs-")],
 "C10-m1": [("C10", "quick", r"dirty-mul0-(2x65x70|8x70x70)-c1"), ("C01", "quick", r"naive0-2x70x70-c1$")],
 "C10-m2": [("C09", "quick", r"add-3x130-vm(1|2)-o1-x70")],
 "C10-m3": [("C10", "quick", r"fresh-"), ("C14", "quick", r"defsmall")],
 "C11-m1": [("C11", "quick", r"submatrix(64|128)-off")],
 "C11-m2": [("C11", "thorough", r"sse-")],
 "C12-m1": [("C02", "thorough", r"kbarB18-k4")],
 "C12-m2": [("C01", "quick", r"naive1-tinyL3-35x5x20"), ("C12", "quick", r"naive1")],
 "C13-m1": [("C09", "quick", r"pright[01]-3x40")],
 "C13-m2": [("C13", "quick", r"ptri-3x6|ptri-")],
 "C14-m1": [("C14", "quick", r"pool-free-nblk3")],
 "C14-m2": [("C14", "quick", r"defsmall")],
 "C15-m1": [("C15", "quick", r"frame-s(0|1)$")],
 "C15-m2": [("C15", "quick", r"frame-s4-20x27")],
 "C16-m1": [("C16", "quick", r"mp4-shape")],
 "C16-m2": [("C16", "quick", r"mp4-shape|@omp")],
 "C17-m1": [("C17", "quick", r"pivot-o-4x(130|200)")],
 "C17-m2": [("C17", "quick", r"equal-o-3x(65|128)|cmptrans-o-2x(65|130)")],
 "C18-m1": [("C18", "quick", r"pngrt-1x(1[7-9]|2[0-4])$")],
 "C18-m2": [("C18", "quick", r"jcf-")],
 "C19-m1": [("C19", "quick", r"allcodes")],
 "C19-m2": [("C19", "quick", r"spread-len1[2-6]")],
 "C20-m1": [("C20", "quick", r"fail-s1-def")],
 "C20-m2": [("C20", "quick", r"fail-s15-ts")],
}

def sh(cmd, **kw):
    return subprocess.run(cmd, shell=True, capture_output=True, text=True, **kw)

def main():
    ids = sys.argv[1:] or sorted(T)
    st = sh("git -C %s status --porcelain -- m4ri" % R).stdout.strip()
    if st:
        print("refusing: /repo/m4ri is not clean:\n" + st); sys.exit(2)
    rows = []
    for mid in ids:
        d = os.path.join(V, "seeded", mid)
        patch = os.path.join(d, "patch.diff")
        if os.path.exists(os.path.join(d, "patch_rebased.diff")):   # the original no longer applies after a fix: commit
            patch = os.path.join(d, "patch_rebased.diff")
        if not os.path.exists(patch):
            print(mid, "no patch"); continue
        a = sh("git -C %s apply %s" % (R, patch))
        if a.returncode != 0:
            rows.append((mid, "PATCH-DOES-NOT-APPLY (conflicts with a later fix: commit)", "")); print(mid, "patch does not apply:", a.stderr[:200]); continue
        det = []; logs = []
        try:
            for (prop, tier, rx) in T.get(mid, []):
                t0 = time.time()
                env = dict(os.environ, VERIF_INCLUDE_SLOW="1")
                r = subprocess.run(["bin/vcheck", prop, "--tier", tier, "--only", rx, "--no-evidence"], cwd=V, capture_output=True, text=True, env=env, timeout=5400)
                viol = [l for l in r.stdout.splitlines() if l.startswith("VIOLATION") or "counterexample in" in l]
                summ = [l for l in r.stdout.splitlines() if l.startswith("vcheck ")]
                logs.append("%s %s --only '%s': exit %d (%.0fs) %s" % (prop, tier, rx, r.returncode, time.time() - t0, summ[0] if summ else ""))
                logs += ["    " + v[:300] for v in viol[:4]]
                if r.returncode == 1 and viol:
                    det.append("%s(%s)" % (prop, rx))
        finally:
            sh("git -C %s checkout -- ." % R)
        meta_p = os.path.join(d, "meta.json")
        meta = json.load(open(meta_p)) if os.path.exists(meta_p) else {}
        meta["detected_by"] = det
        meta["detection_runs"] = logs
        json.dump(meta, open(meta_p, "w"), indent=1)
        rows.append((mid, "DETECTED" if det else "MISSED", "; ".join(det)))
        print(mid, "DETECTED" if det else "MISSED", det, flush=True)
        for l in logs: print("   ", l[:220], flush=True)
    with open(os.path.join(V, "seeded", "RESULTS.md"), "a") as f:
        f.write("\n## run %s\n\n| seeded change | outcome | caught by |\n|---|---|---|\n" % time.strftime("%Y-%m-%d %H:%M"))
        for r in rows: f.write("| %s | %s | %s |\n" % r)

if __name__ == "__main__":
    main()
