#!/bin/bash
# mkwt.sh <dir> : scratch git worktree of /repo at HEAD, configured and built (autotools, in-tree)
set -e
D=$1
git -C /repo worktree add --detach "$D" HEAD >/dev/null 2>&1
cd "$D"
# bring the untracked autotools products over (configure, Makefile.in, ...), then re-run config.status
rsync -a --ignore-existing --exclude .git --exclude '*.o' --exclude '*.lo' --exclude '.libs' --exclude '*.la' --exclude '*.log' --exclude '*.trs' --exclude 'tests/test_*[a-z]' /repo/ "$D"/
for t in tests/test_*; do case $t in *.c) ;; *) rm -f $t;; esac; done
./config.status >/dev/null 2>&1
make -j8 >/dev/null 2>&1
echo "worktree ready: $D"
