#!/usr/bin/env python3
"""prints the markdown table for DESIGN.md 9.5 from seeded/*/meta.json"""
import json, glob, os
rows = []
for p in sorted(glob.glob("/verif/seeded/*/meta.json")):
    m = json.load(open(p)); mid = os.path.basename(os.path.dirname(p))
    det = m.get("detected_by")
    out = "not yet run" if det is None else ("**caught** by " + ", ".join(det) if det else "**missed**")
    rows.append("| %s | %s | %s | %s |" % (mid, m.get("breaks_property", mid[:3]), m.get("needs", "")[:170], out))
print("| seeded change | property | needs, to manifest | outcome |\n|---|---|---|---|")
print("\n".join(rows))
