#!/bin/bash
# confirm_mutant.sh <Cxx> <mN> : re-confirm a seeded change independently of the agent that wrote it.
#  (1) demo passes on the unmodified tree, (2) patch applies, library builds, (3) demo fails with the
#  patch, (4) the unedited test-suite still passes 15/15 with the patch. Writes seeded/<Cxx>-<mN>/.
P=$1; M=$2
SRC=/tmp/mut-$P/$M
OUT=/verif/seeded/$P-$M
WT=/tmp/cw-$P-$M
mkdir -p $OUT
cp $SRC/patch.diff $SRC/demo.c $OUT/ 2>/dev/null
cp $SRC/README.md $OUT/README.agent.md 2>/dev/null
for f in build_demo.sh build.sh build_omp.sh; do [ -f $SRC/$f ] && cp $SRC/$f $OUT/; done
/verif/tools/mkwt.sh $WT > /dev/null 2>&1 || { echo "worktree failed"; exit 1; }
build_demo() {  # $1 = output binary
  cd $OUT
  if [ -f build_demo.sh ]; then rm -rf cfg demo; bash ./build_demo.sh $WT > build.log 2>&1; mv demo $1 2>/dev/null
  elif [ -f build.sh ]; then rm -f demo; bash ./build.sh $WT > build.log 2>&1; mv demo $1 2>/dev/null
  elif [ -f build_omp.sh ]; then rm -rf /tmp/omp-$P-$M; bash ./build_omp.sh $WT /tmp/omp-$P-$M > build.log 2>&1; gcc -std=gnu99 -O2 -fopenmp -I/tmp/omp-$P-$M demo.c /tmp/omp-$P-$M/libm4ri_omp.a -lm -lpng -o $1 >> build.log 2>&1; rm -rf /tmp/omp-$P-$M
  else gcc -O1 -I$WT demo.c $WT/.libs/libm4ri.a -lm -lpng -o $1 > build.log 2>&1
  fi
}
build_demo /tmp/demo-$P-$M-orig
( cd $OUT; timeout 600 /tmp/demo-$P-$M-orig > demo_unpatched.log 2>&1 ); RC0=$?
cd $WT && git apply $OUT/patch.diff; APPLY=$?
make -j4 > /dev/null 2>&1; BUILD=$?
build_demo /tmp/demo-$P-$M-mut
( cd $OUT; timeout 600 /tmp/demo-$P-$M-mut > demo_patched.log 2>&1 ); RC1=$?
cd $WT && timeout 3000 make -j4 check > /tmp/check-$P-$M.log 2>&1
NPASS=$(grep -m1 "^# PASS:" /tmp/check-$P-$M.log | awk '{print $3}')
NFAIL=$(grep -m1 "^# FAIL:" /tmp/check-$P-$M.log | awk '{print $3}')
tail -c 600 $OUT/demo_patched.log > $OUT/demo_patched.tail; tail -c 300 $OUT/demo_unpatched.log > $OUT/demo_unpatched.tail
rm -f $OUT/demo_patched.log $OUT/demo_unpatched.log $OUT/build.log /tmp/demo-$P-$M-orig /tmp/demo-$P-$M-mut /tmp/check-$P-$M.log
rm -rf $OUT/cfg
cd /
git -C /repo worktree remove --force $WT; git -C /repo worktree prune
python3 - <<PY
import json
ok = ($RC0 == 0 and $APPLY == 0 and $BUILD == 0 and $RC1 != 0 and "${NPASS:-0}" == "15" and "${NFAIL:-1}" == "0")
json.dump(dict(property="$P", mutant="$M", confirmed=bool(ok), demo_exit_unpatched=$RC0, patch_applies=($APPLY==0), builds=($BUILD==0),
  demo_exit_patched=$RC1, testsuite_pass="${NPASS:-?}", testsuite_fail="${NFAIL:-?}",
  ran=["tools/mkwt.sh (git worktree of /repo HEAD, ./config.status, make)", "demo built and run on unmodified tree", "git apply patch.diff; make -j4", "demo rebuilt and run on patched tree", "make -j4 check on patched tree"],
  needs="see README.agent.md (trigger description by the sub-agent that wrote the change)", detected_by=None),
  open("$OUT/meta.json","w"), indent=1)
print("$P-$M confirmed=%s rc0=$RC0 rc1=$RC1 pass=${NPASS:-?} fail=${NFAIL:-?}" % ok)
PY
