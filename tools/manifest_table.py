# extra entries for genmanifest.py (exec'd there): CHECKS[...] / NA[...] / HOOK_COMMITS
HOOK_COMMITS = ["00f9f91", "0c36a77", "a7a9a70"]
# only properties whose check currently passes on the unchanged tree with valid evidence are claimed
CLAIMED = ["C01", "C02", "C03", "C04", "C05", "C06", "C07", "C08", "C09", "C10", "C11", "C12", "C13", "C14", "C15", "C16", "C17", "C18", "C19", "C20"]
_T = "CBMC 6.11 bounded model checking of the real C sources (goto-cc), "
CHECKS["C01"] = dict(
  text="Bounded model checking of the real multiplication routes against the textbook GF(2) product written in the harness: naive / vector routes and M4RM with every bit of A, B and the prior C symbolic at small inner dimension; larger shapes with one operand (or a word band) symbolic and the rest concrete; the Strassen front ends at base-case sizes and the A==B squaring dispatch; DJB compile+apply; scaled-down cache configuration for the blocked loops. The multi-core route is checked at index level with symbolic dimensions (C16 harness).",
  note="fully symbolic products only up to inner dimension 17 (24 thorough); Strassen-Winograd recursion with symbolic matrix bits is out of reach (DESIGN F14) - only its base-case dispatch and the mp4 tiling are covered; REGION queries claim 'for all values of the symbolic part' for one concrete remainder (seed in evidence)",
  technique=_T + "symbolic operands vs. reference product (cadical/kissat/z3)", ref="5/C01")
CHECKS["C02"] = dict(
  text="Bounded model checking of the echelonisation routines against a declarative oracle (rank from an independent reference elimination, result is a (reduced) row echelon form, row spaces equal): naive Gauss fully symbolic up to 3x4 (thorough 5x5); M4RI for k in 0..10, PLUQ-based, hybrid (density verdict arbitrary via stub) and top-reduction in PASSIVE mode [K|S]: the pivot-carrying columns K are concrete per query (rank-profile families, word-boundary gaps, rank-deficient variants), 70 further columns S are fully symbolic.",
  note="the quantifier over rank profiles is NOT covered by the solver for the table-driven routines (their control flow cannot be executed symbolically, DESIGN F17): per query the profile is concrete, only S is universally quantified; naive routine is fully symbolic but tiny",
  technique=_T + "PASSIVE/FULL symbolic inputs vs. declarative echelon-form oracle (cadical/z3)", ref="5/C02")
CHECKS["C03"] = dict(
  text="Bounded model checking of PLE/PLUQ: r = rank, LAPACK-range of P and Q (pre-filled with junk), P*L*E = A0 resp. P*L*U*Q = A0 reconstructed word-sliced from the overwritten matrix, pivot columns strictly increasing and equal to the reference column rank profile, zero storage outside L and E/U. Naive routines fully symbolic (<= 3x4); mzd_ple / mzd_pluq / _mzd_ple_russian / _mzd_pluq_russian and the block-recursive algorithm (scaled-down PLE cutoff) in PASSIVE mode.",
  note="as C02: rank profile concrete per query for the table-driven and recursive routines; last input row concrete (mzd_first_zero_row)",
  technique=_T + "PASSIVE/FULL symbolic inputs, algebraic reconstruction oracle (cadical/z3)", ref="5/C03")
CHECKS["C04"] = dict(
  text="Bounded model checking of the four TRSM variants: T (with arbitrary junk in the unused triangle) and B fully symbolic in the word base case (n <= 16, widths 1..70, tall B for the right variants); Four-Russians, trtri+mul and recursive regimes (scaled-down block size) with concrete T and fully symbolic B, and T symbolic in a word band; oracle T*X = B0 resp. X*T = B0 using only the named triangle and the unit diagonal; T unchanged.",
  note="symbolic T beyond 16 (24) rows only band-wise; recursion through configuration tinyL3b (block size 64)",
  technique=_T + "symbolic T and B vs. T*X==B0 (cadical/kissat/z3)", ref="5/C04")
CHECKS["C05"] = dict(
  text="Bounded model checking of inversion: mzd_inv_m4ri wrapper with A fully symbolic (n up to 70) and the elimination replaced by a contract stub that asserts its precondition ([A|I] layout, reduced form requested, admissible table parameter) and assumes its post-condition ([I|X], A*X=I) - the contract itself is C02's PASSIVE result; mzd_invert_naive fully symbolic n<=3; mzd_trtri_upper fully symbolic n<=12 and band-symbolic for n in {64,65,70,130} incl. the recursive branch (scaled-down L3).",
  note="whole-run M4RI inversion for all invertible A is split into wrapper + contract (assume/guarantee); singular A excluded as in the property",
  technique=_T + "contract stub (goto-instrument --replace-calls) + symbolic inputs (cadical/kissat)", ref="5/C05")
CHECKS["C06"] = dict(
  text="Bounded model checking of mzd_solve_left and _mzd_pluq + mzd_pluq_solve_left: A concrete (random, sparse, zero, rank-deficient, identity-like; m<n, m=n, m>n), B fully symbolic including the padding rows, so every consistent and inconsistent right-hand side is decided by the solver; the verdict is compared with an independent reference elimination of [A_padded | B], and A0*X = B0 is checked whenever 0 is returned.",
  note="A is concrete per query (PLUQ control cannot be symbolic, DESIGN F17); claim is 'for all B'",
  technique=_T + "concrete A, fully symbolic B vs. reference solvability oracle (cadical/z3)", ref="5/C06")
CHECKS["C07"] = dict(
  text="Bounded model checking of mzd_kernel_left_pluq in PASSIVE mode A=[K|S] (K concrete with full row rank over rank-profile families, S up to 70 symbolic columns): NULL exactly when rank == ncols, K is n x (n-r), A0*K = 0 (bilinear in S and the result), rank(K) = n-r by an independent reference elimination; nullity 64 (word-multiple tail), rank-deficient, zero and full-column-rank inputs.",
  note="pivot structure concrete per query; last input row concrete",
  technique=_T + "PASSIVE symbolic inputs vs. algebraic kernel oracle (cadical/kissat)", ref="5/C07")
CHECKS["C08"] = dict(
  text="Bounded model checking of the real mzd.c/mzd.h data-movement routines (mzd_add/_mzd_add incl. all documented aliasing forms and each width-specialised loop, mzd_transpose over its size classes, mzd_copy, mzd_copy_row, mzd_set_ui, mzd_submatrix at every start bit offset, mzd_concat, mzd_stack, mzd_extract_u/l): every matrix bit, and every bit of a supplied destination, is a solver variable; the oracle is the entry-wise definition written in the harness. One query per concrete shape; the solver decides all contents.",
  note="shapes limited to the grid in evidence.bounds (transpose <= 130x130 quick / <= 769 thorough); SSE2 configuration only for the wide-row vector loop of addition; destination matrices are owned (zero excess bits on entry)",
  technique=_T + "symbolic matrix contents, entry-wise reference (cadical/z3)", ref="5/C08")
CHECKS["C09"] = dict(
  text="The functional harnesses of C01/C02/C04/C05/C08/C13/C17 re-run with operands turned into windows of larger parents whose every word is symbolic (row offset, word offsets 1 and 2 = both 16-byte phases, view width mod 64 in {0,1,63}, parent wider or ending with the view): each query asserts the functional oracle on the viewed block and, bit for bit, that nothing of the parent outside any view changed.",
  note="operations in the table of plans/C09.py; eliminations only in PASSIVE mode; faults from misaligned vector loads are modelled by the library's own alignment asserts (SSE2 config, thorough)",
  technique=_T + "symbolic parents around views + frame assertion (cadical/z3)", ref="5/C09")
CHECKS["C10"] = dict(
  text="Every functional harness (C01-C09) already starts from destinations filled with symbolic junk and from a heap whose fresh blocks hold nondeterministic contents (CBMC memory model), and asserts zero padding of each owned result - a dependence on stale memory breaks a functional assertion for some heap content. This check adds the default-cache configuration with the block cache pre-loaded with dirty recycled blocks of exactly the sizes the scenario requests, supplied-destination variants, and matrix freshness at the block-cache threshold (scaled-down L3).",
  note="call histories are represented by the cache/heap state they leave, not replayed; sizes beyond the grids (e.g. 32 MiB blocks) are outside",
  technique=_T + "nondeterministic heap + dirty block cache, same functional oracles (cadical/z3)", ref="5/C10")
CHECKS["C11"] = dict(
  text="CBMC's full check set (array bounds, pointer validity incl. NULL / freed / out-of-object dereference, undefined shifts, signed overflow, division by zero; memory-leak check on complete call sequences) on a scenario grid drawn from C01-C08 with symbolic contents, plus the checked public wrappers called with incompatible SYMBOLIC dimensions on header-only operands (any data access is a NULL dereference; the call must reach m4ri_die). C13, C14, C17, C18 and C20 run with the same checks inside their own plans.",
  note="forming (not dereferencing) an out-of-bounds pointer and the cross-object pointer subtraction in mzd_t_free are reported separately (coverage.pointer_arithmetic_only_notes), not as violations; CBMC has no alignment trap - misaligned vector access is covered through the library's own alignment asserts in the SSE2 configuration",
  technique=_T + "all standard + pointer/shift/overflow checks, leak check, symbolic dimensions for wrappers (cadical/kissat)", ref="5/C11")
CHECKS["C12"] = dict(
  text="A subset of the C01-C07/C13 query grids re-targeted to other regenerated configurations (default caches, OpenMP code paths sequentialised, SSE2 leaf kernels, smallest real cache triple, scaled-down L1/L2/L3 so that every cache-derived threshold falls inside the verifiable shapes) and swept over k in 0..10 and cutoffs; every run is compared with the same configuration-independent oracle, so results agree across configurations and parameters within the bounds.",
  note="real cache triples only select regimes at sizes above the grids (outside); tiny triples are below the property's 'real machine' range and are used because thresholds occur only in comparisons",
  technique=_T + "same oracles under regenerated m4ri_config.h variants (cadical/z3)", ref="5/C12")
CHECKS["C13"] = dict(
  text="Bounded model checking of row/column operations and bit-range primitives with symbolic contents AND symbolic indices, offsets, lengths and row ranges; the combine family at widths 1..10 words; permutation application with fully symbolic LAPACK-style permutations (left: length <= 6; right: full permutations on <= 8 columns and symbolic 5-position windows sliding over 70/130-column matrices incl. the word boundary; capped and triangular variants; scaled-down L1 for the strip height); oracle = sequential swaps in the documented order; inverse law and left/right consistency.",
  note="long arbitrary permutations on wide matrices only through windows of <= 5 (7) non-identity positions; mzd_and_bits and the start_col>0 capped variant have no caller and undocumented semantics (outside)",
  technique=_T + "symbolic contents and indices vs. sequential-swap reference (cadical/kissat)", ref="5/C13")
CHECKS["C14"] = dict(
  text="Inductive steps from arbitrary valid allocator states: one mzd_t_malloc / mzd_t_free from every header-pool state with 1..3 blocks (all used-masks symbolic, current_cache any member), one m4ri_mmc_malloc / m4ri_mmc_free from every block-cache state over 3 slots, each followed by the representation invariant, no-overlap and exact-slot assertions; plus scripted histories with symbolic canaries, nondeterministic recycled memory, all CBMC memory checks and a leak check after m4ri_mmc_cleanup. Capacities scaled to 3 through the guarded hook.",
  note="the representation invariant is mine (reviewed against mzd.c/mmc.c); hook in mzd_t_free encodes the flat-address-space fact CBMC lacks; real capacities 16/16 are parameters of the same code",
  technique=_T + "one-step-from-arbitrary-state + scripted histories, pointer and leak checks (cadical/kissat)", ref="5/C14")
CHECKS["C15"] = dict(
  text="The schedule quantifier is not encoded (no usable CBMC thread model here). Decided instead, per public entry point in the thread-safe configuration: every assignment and every free reachable from the call targets the operands' storage, memory allocated during the call or the stack - never an object of static storage duration (dynamic frame-condition checking, goto-instrument --dfcc). With a thread-safe malloc this implies race freedom for threads on disjoint operands, and per-thread results equal the sequential ones (C01-C08).",
  note="sufficient condition, not an exploration of interleavings; libc thread-safety assumed; concrete operand contents (the frame condition quantifies over writes)",
  technique="CBMC dynamic frame condition checking (goto-instrument --dfcc --enforce-contract) of the real call trees", ref="5/C15")
CHECKS["C16"] = dict(
  text="Reduced-strength check (pragmas and thread counts cannot be encoded): the real _mzd_mul_mp4/_mzd_addmul_mp4 bodies run on data-less headers with SYMBOLIC dimensions (1..1100) and cutoff; contract stubs record every product term in a ghost ledger: windows aligned/in range/non-empty, operands conform, every term reaches every block of C exactly once, sections own distinct blocks (hence commute), the multiply route never accumulates onto prior C. Plus the OpenMP-only code of M4RM / elimination executed sequentially against the C01/C02 oracles, and a frame check that a table-building iteration writes only its own table.",
  note="a change that only edits a pragma / data-sharing clause or depends on iteration-to-thread assignment is invisible (stated in DESIGN 5/C16)",
  technique="CBMC with symbolic dimensions on header-only operands + contract stubs (goto-instrument --replace-calls), dfcc frame check", ref="5/C16")
CHECKS["C17"] = dict(
  text="Bounded model checking of the observers with fully symbolic contents on owned matrices and on views with symbolic surroundings: equal <=> all entries equal (and dims), cmp == 0 <=> equal, antisymmetry, transitivity on three symbolic matrices, is_zero, first_zero_row, find_pivot for every start row x symbolic start column per 64-column band (fails exactly on a zero region, else left-most non-zero column, row holds a one, outputs untouched on failure), read-after-write.",
  note="shapes <= 5 rows x 200 (260) columns",
  technique=_T + "symbolic contents and start positions vs. abstract-matrix definitions (cadical/kissat)", ref="5/C17")
CHECKS["C18"] = dict(
  text="The real io.c parsers/writers driven through nondeterministic libpng/stdio stubs constrained only by the documented contracts: PNG round trip for symbolic matrices with ncols in every residue class mod 8 and around multiples of 64; malformed PNG headers (every valid bit depth x colour type x interlace, arbitrary row bytes of the contract length, creation failures) must be rejected without any access outside the reader's buffers; JCF reader on arbitrary token streams; string constructor on arbitrary characters.",
  note="libpng/zlib internals are trusted (stubs encode row-length, packswap and invert_mono semantics); real file bytes are outside",
  technique=_T + "nondeterministic FFI stubs + pointer checks + round-trip oracle (cadical/z3)", ref="5/C18")
CHECKS["C19"] = dict(
  text="Bounded model checking of the real graycode.c / misc.h / parity.h / brilliantrussian.c functions: the solver decides the assertions for ALL inputs of each finite domain (symbolic table index pairs, all 4096 parity input bits, all mask arguments, all words, all strictly increasing Q of each length, all table patterns x and all row contents).",
  note="code books k<=9 (quick) / k<=10 (thorough): k=11..16 exceed CBMC's memory and are outside the claim; mzd_make_table k<=6 (8) on 1-10 word rows with r+k<=nrows",
  technique=_T + "fully symbolic inputs over finite domains (cadical/z3)", ref="5/C19")
CHECKS["C20"] = dict(
  text="CBMC's --malloc-may-fail --malloc-fail-null makes every allocation request of 13 scenarios (create/window, pool growth, all product routes, eliminations, factorisations, inversions, solve, kernel, data movement, permutations, DJB compile with array growth) return NULL nondeterministically in one query per scenario and configuration - all fault positions and multi-fault combinations - with all pointer checks on; the error handler is a path-ending stub; a normally returning scenario must hand back complete objects.",
  note="scenarios listed in the plan only; PNG paths excluded (FFI stubs); data concrete",
  technique="CBMC fault injection at every allocation site (--malloc-may-fail) with pointer checks", ref="5/C20")
