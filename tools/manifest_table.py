# extra entries for genmanifest.py (exec'd there): CHECKS[...] and NA[...]
CHECKS["C08"] = dict(
  text="Bounded model checking of the real mzd.c/mzd.h data-movement routines (mzd_add/_mzd_add incl. all documented aliasing forms and each width-specialised loop, mzd_transpose over its size classes, mzd_copy, mzd_copy_row, mzd_set_ui, mzd_submatrix at every start bit offset, mzd_concat, mzd_stack, mzd_extract_u/l): every matrix bit, and every bit of a supplied destination, is a solver variable; the oracle is the entry-wise definition written in the harness. One query per concrete shape; the solver decides all contents.",
  note="shapes limited to the grid in evidence.bounds (transpose <= 130x130 quick / <= 769 thorough); SSE2 configuration only for the wide-row vector loop of addition; destination matrices are owned (zero excess bits on entry)",
  technique="CBMC bounded model checking, symbolic matrix contents, entry-wise reference (cadical/z3)", ref="5/C08")
