#!/bin/bash
python3 /verif/tools/genmanifest.py && python3-vt - <<'PY'
import json,jsonschema,glob
jsonschema.validate(json.load(open('/verif/MANIFEST.json')),json.load(open('/root/.vp/MANIFEST.schema.json')))
s=json.load(open('/root/.vp/EVIDENCE.schema.json'))
for f in glob.glob('/verif/evidence/*.json'):
    jsonschema.validate(json.load(open(f)),s)
print('manifest+evidence valid')
PY
