#!/bin/bash
# runseq.sh tier C01 C02 ... : run checks one after another, output to /verif/logs/run-<id>-<tier>.out
tier=$1; shift
mkdir -p /verif/logs
for p in "$@"; do
  ( cd /verif && /usr/bin/time -f "WALL %e s" bin/vcheck $p --tier $tier > logs/run-$p-$tier.out 2>&1; echo "EXIT $?" >> logs/run-$p-$tier.out )
done
