#!/usr/bin/env python3
"""Regenerates /verif/MANIFEST.json from the tables below (kept in one place so it always validates)."""
import json, os
V = "/verif"
MC = "model_checking"
CHECKS = {
 "C19": dict(text="Bounded model checking (CBMC 6.11, SAT/SMT back ends) of the real graycode.c / misc.h / parity.h / brilliantrussian.c functions: the solver decides the assertions for ALL inputs of each finite domain (symbolic table index pairs, all 4096 parity input bits, all mask arguments, all words, all strictly increasing Q of each length, all table patterns x and all row contents). Right level because the domains are finite and the kernels are loop-free or concretely bounded.",
             note="code books k<=9 (quick) / k<=10 (thorough): k=11..16 exceed CBMC's memory and are outside the claim; mzd_make_table k<=6 (8) on 1-10 word rows with r+k<=nrows; CBMC front end, symex and SAT back ends trusted",
             technique="CBMC bounded model checking of the real C functions, fully symbolic inputs (cadical/z3)", ref="5/C19"),
}
NA = {}
try:
    exec(open(os.path.join(V, "tools", "manifest_table.py")).read())
except FileNotFoundError:
    pass
if "CLAIMED" in dir():
    CHECKS = {k: v for k, v in CHECKS.items() if k in CLAIMED}
props = [json.loads(l) for l in open(os.path.join(V, "properties.jsonl"))]
checks = []
for p in props:
    i = p["id"]
    if i in CHECKS:
        c = CHECKS[i]
        checks.append(dict(property_id=i, quick_cmd="bin/vcheck %s --tier quick" % i, thorough_cmd="bin/vcheck %s --tier thorough" % i,
                           evidence_file="evidence/%s.json" % i, replay_cmd_template="bin/vcheck --replay {path}", engine="vcheck",
                           level_claimed=dict(category=MC, text=c["text"], design_ref="DESIGN.md section " + c["ref"]),
                           level_note=c["note"], technique=c["technique"]))
na = [dict(property_id=p["id"], reason=NA.get(p["id"], "check under construction in this session (solver-based harness not yet committed); see DESIGN.md section 5")) for p in props if p["id"] not in CHECKS]
m = dict(version=1, setup_cmd="true",
         hooks=dict(guard="M4RI_VERIF", enable="goto-cc -DM4RI_VERIF (bin/vcheck passes it to every translation unit)", baseline_off_cmd="make -C /repo -j8 check", source_commits=HOOK_COMMITS if "HOOK_COMMITS" in dir() else [], add_only=True),
         engines=[dict(name="vcheck", path="bin/vcheck", serves_properties=sorted(CHECKS), kind_free_text="python driver: regenerates m4ri_config.h per configuration, compiles /repo/m4ri/*.c with goto-cc, links one harness per concrete layout tuple, runs CBMC (cadical / kissat / z3) in parallel, witness twins, counterexample replay against a gcc+ASan/UBSan build")],
         checks=checks, not_applicable=na,
         notes="All checks are bounded symbolic checks of the real sources (DESIGN.md). Exit 0 = held on every query; 1 = VIOLATION; 2 = machinery broken (never counted as pass).")
json.dump(m, open(os.path.join(V, "MANIFEST.json"), "w"), indent=1)
print("MANIFEST: %d checks, %d not_applicable" % (len(checks), len(na)))
