#!/usr/bin/env python3
"""mark_slow.py Cxx [threshold_s]: read logs/Cxx-quick.txt and add every query that was inconclusive or slower
than the threshold to plans/slow.json (quick tier skips them, thorough runs them with a long timeout)."""
import sys, json, os, re
prop = sys.argv[1]; thr = float(sys.argv[2]) if len(sys.argv) > 2 else 150.0
p = "/verif/plans/slow.json"
slow = json.load(open(p)) if os.path.exists(p) else {}
cur = set(slow.get(prop, []))
n = 0
for line in open("/verif/logs/%s-quick.txt" % prop):
    f = line.split()
    if len(f) < 3 or f[0].endswith("#witness"): continue
    name, status, t = f[0], f[1], float(f[2].rstrip("s"))
    if status in ("timeout", "oom", "unwind") or (status == "pass" and t > thr):
        if name not in cur: cur.add(name); n += 1
slow[prop] = sorted(cur)
json.dump(slow, open(p, "w"), indent=1)
print("%s: %d newly marked slow, %d total" % (prop, n, len(cur)))
