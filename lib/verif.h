/* Shared harness API. Two build modes:
 *   default  : goto-cc / CBMC. vin_* return nondeterministic values (the solver's variables).
 *   -DREPLAY : gcc against a gcc build of the real library; vin_* read the recorded counterexample
 *              values (file named by $VERIF_REPLAY, one hex word per line, in call order).
 * -DWITNESS: every VASSERT is dropped and VDONE() becomes assert(0): the reachability twin.
 */
#ifndef VERIF_H
#define VERIF_H

#include <m4ri/m4ri.h>
#include <stdint.h>
#include <stdlib.h>
#include <string.h>

extern int verif_died;         /* set by the m4ri_die stub */
extern int verif_die_expected; /* harness says a controlled abort is an acceptable outcome */

word vin_word(void);           /* one fresh symbolic 64-bit word */
int vin_int(void);             /* one fresh symbolic int */
int vin_range(int lo, int hi); /* symbolic int in [lo,hi] */

void verif_init(int kmax); /* builds Gray code books 1..kmax with the real m4ri_build_code */

#ifdef REPLAY
#include <stdio.h>
void verif_replay_fail(const char *msg, const char *file, int line);
void verif_replay_assume_false(const char *file, int line);
#define VASSERT(c, msg)                                                                            \
  do {                                                                                             \
    if (!(c)) verif_replay_fail(msg, __FILE__, __LINE__);                                          \
  } while (0)
#define VASSUME(c)                                                                                 \
  do {                                                                                             \
    if (!(c)) verif_replay_assume_false(__FILE__, __LINE__);                                       \
  } while (0)
#define VDONE()                                                                                    \
  do {                                                                                             \
    printf("REPLAY-END-REACHED\n");                                                                \
  } while (0)
#define VOBJ_SAME(p, q) 1
#else
#ifdef WITNESS
#define VASSERT(c, msg)                                                                            \
  do {                                                                                             \
    (void)(c);                                                                                     \
  } while (0)
#define VDONE() __CPROVER_assert(0, "WITNESS end of harness reached")
#else
#define VASSERT(c, msg) __CPROVER_assert((c), msg)
#define VDONE()                                                                                    \
  do {                                                                                             \
  } while (0)
#endif
#define VASSUME(c) __CPROVER_assume(c)
#endif

/* ---- matrix helpers (real mzd_t, real mzd_init) ---- */

/* fill every valid bit of M with a fresh symbolic value; excess bits of the last word:
 * zero when keep_excess == 0 (the representation invariant of an owned matrix), otherwise left. */
static inline void vfill(mzd_t *M) {
  for (rci_t i = 0; i < M->nrows; ++i) {
    word *row = mzd_row(M, i);
    for (wi_t j = 0; j < M->width - 1; ++j) row[j] = vin_word();
    if (M->width > 0) {
      word v = vin_word();
      if (mzd_is_windowed(M))
        row[M->width - 1] = (row[M->width - 1] & ~M->high_bitmask) | (v & M->high_bitmask);
      else
        row[M->width - 1] = v & M->high_bitmask;
    }
  }
}

/* fill *all* words of the allocation including padding words and excess bits (for parents of
 * windows and "dirty destination" scenarios) */
static inline void vfill_raw(mzd_t *M) {
  for (rci_t i = 0; i < M->nrows; ++i) {
    word *row = mzd_row(M, i);
    for (wi_t j = 0; j < M->rowstride; ++j) row[j] = vin_word();
  }
}

static inline mzd_t *vmat(rci_t r, rci_t c) {
  mzd_t *M = mzd_init(r, c);
  vfill(M);
  return M;
}

/* ---- plain reference matrices: row-major word arrays, w words per row, excess bits zero ---- */

static inline word vmask(int ncols) { /* mask of valid bits in the last word */
  return (ncols % 64) ? ((~(word)0) >> (64 - ncols % 64)) : ~(word)0;
}

/* copy the mathematical value of M (valid bits only) into ref[r][w] */
static inline void ref_from_mzd(word *ref, int w, mzd_t const *M) {
  for (rci_t i = 0; i < M->nrows; ++i) {
    word const *row = mzd_row_const(M, i);
    for (int j = 0; j < w; ++j) {
      word v = (j < M->width) ? row[j] : 0;
      if (j == M->width - 1) v &= vmask(M->ncols);
      ref[i * w + j] = v;
    }
  }
}

/* M (valid bits) == ref ?  returns 1/0 (word-sliced). Checks excess bits == 0 when owned != 0 */
static inline int ref_eq_mzd(word const *ref, int w, mzd_t const *M, int owned) {
  word diff = 0;
  for (rci_t i = 0; i < M->nrows; ++i) {
    word const *row = mzd_row_const(M, i);
    for (int j = 0; j < M->width; ++j) {
      word v = row[j];
      if (j == M->width - 1) {
        if (owned) diff |= v & ~vmask(M->ncols);
        v &= vmask(M->ncols);
      }
      diff |= v ^ ref[i * w + j];
    }
  }
  return diff == 0;
}

static inline int ref_bit(word const *ref, int w, int i, int j) {
  return (int)((ref[i * w + j / 64] >> (j % 64)) & 1);
}

/* C = A*B over GF(2): row i of C = XOR of rows k of B with a_ik = 1.  A: m x l (wa words),
 * B: l x n (wb words), C: m x n (wb words). acc != 0: C += A*B */
static inline void ref_mul(word *C, word const *A, int m, int l, int wa, word const *B, int wb,
                           int acc) {
  for (int i = 0; i < m; ++i) {
    for (int j = 0; j < wb; ++j) {
      word s = acc ? C[i * wb + j] : 0;
      for (int k = 0; k < l; ++k) {
        word sel = (word)0 - ((A[i * wa + k / 64] >> (k % 64)) & 1);
        s ^= sel & B[k * wb + j];
      }
      C[i * wb + j] = s;
    }
  }
}


/* ---- raw snapshots (every word of the allocation incl. padding words) ---- */
#ifndef VERIF_H_SNAP
#define VERIF_H_SNAP
static inline wi_t vsnap_w(mzd_t const *M) { return mzd_is_windowed(M) ? M->width : M->rowstride; }
static inline void vsnap(word *buf, mzd_t const *M) {
  for (rci_t i = 0; i < M->nrows; ++i)
    for (wi_t j = 0; j < vsnap_w(M); ++j) buf[i * vsnap_w(M) + j] = mzd_row_const(M, i)[j];
}
/* for windows: only the words the view covers (width words per row) */
static inline int vsnap_same(word const *buf, mzd_t const *M) {
  word d = 0;
  for (rci_t i = 0; i < M->nrows; ++i)
    for (wi_t j = 0; j < vsnap_w(M); ++j) d |= buf[i * vsnap_w(M) + j] ^ mzd_row_const(M, i)[j];
  return d == 0;
}
static inline void ref_set(word *ref, int w, int i, int j, word bit) {
  ref[i * w + j / 64] |= (bit & 1) << (j % 64);
}
static inline void ref_zero(word *ref, int n) {
  for (int i = 0; i < n; ++i) ref[i] = 0;
}
#endif

/* ---- concrete pseudo-random / structured fill with a symbolic region (PASSIVE / REGION modes) ---- */
static uint64_t vlcg_state = 88172645463325252ULL;
static inline void vlcg_seed(unsigned s) { vlcg_state = 88172645463325252ULL + 7919ULL * s; }
static inline word vlcg_next(void) {
  vlcg_state = vlcg_state * 6364136223846793005ULL + 1442695040888963407ULL;
  uint64_t x = vlcg_state;
  x ^= x >> 33; x *= 0xff51afd7ed558ccdULL; x ^= x >> 29;
  return (word)x;
}
/* PAT 0 dense random, 1 sparse, 2 zero, 3 all ones, 4 identity, 5 identity + dense columns >= 128 */
static inline word vpat_word(int pat, int i, int j) {
  word r = vlcg_next();
  switch (pat) {
  case 0: return r;
  case 1: return r & vlcg_next() & vlcg_next();
  case 2: return 0;
  case 3: return ~(word)0;
  case 5: return ((i / 64 == j) ? ((word)1 << (i % 64)) : 0) | (j >= 2 ? ~(word)0 : 0); /* identity + dense from column 128 on: whole zero words followed by ones */
  default: return (i / 64 == j) ? ((word)1 << (i % 64)) : 0;
  }
}
/* rows [r0,r1) x words [w0,w1) symbolic, everything else concrete pattern */
static inline void vfill_mixed(mzd_t *M, int pat, int r0, int r1, int w0, int w1) {
  for (rci_t i = 0; i < M->nrows; ++i) {
    word *row = mzd_row(M, i);
    for (wi_t j = 0; j < M->width; ++j) {
      word c = vpat_word(pat, i, (int)j);
      word v = (i >= r0 && i < r1 && j >= w0 && j < w1) ? vin_word() : c;
      if (j == M->width - 1) v = (v & M->high_bitmask) | (mzd_is_windowed(M) ? (row[j] & ~M->high_bitmask) : 0);
      row[j] = v;
    }
  }
}

/* ---- operands that may be views (C09): VIEWMASK bit idx set => operand idx is a window into a
 * larger parent whose every word is symbolic.  Placement: row offset VROFF, word offset VOFF, parent
 * VEXTRA columns wider than the view's right edge (0 = view ends at the parent's edge). */
#ifndef VIEWMASK
#define VIEWMASK 0
#endif
#ifndef VOFF
#define VOFF 1
#endif
#ifndef VROFF
#define VROFF 1
#endif
#ifndef VEXTRA
#define VEXTRA 70
#endif
#define VMAXVIEWS 6
#define VSNAPWORDS 1024
typedef struct { mzd_t *P; mzd_t *W; int nr, nc; word snap[VSNAPWORDS]; } vview_t;
static vview_t vviews[VMAXVIEWS];
static int vnviews = 0;
#define VOWNED(M) (!mzd_is_windowed(M))
static inline mzd_t *vop_raw(int nr, int nc, int idx, int fill) {
  if (!((VIEWMASK >> idx) & 1)) { mzd_t *M = mzd_init(nr, nc); if (fill) vfill(M); return M; }
  vview_t *v = &vviews[vnviews++];
  v->P = mzd_init(nr + VROFF + 1, 64 * VOFF + nc + VEXTRA);
#ifdef VPARENT_CONC
  /* concrete (pseudo-random, non-zero) surroundings: used where symbolic bits sharing a word with concrete
   * pivot columns would make the control flow symbolic (CBMC has no bit-level constant propagation); the
   * frame assertion still sees every clobbered bit, the claim is for this concrete parent content only */
  for (rci_t pi = 0; pi < v->P->nrows; ++pi)
    for (wi_t pj = 0; pj < v->P->width; ++pj)
      mzd_row(v->P, pi)[pj] = (vlcg_next() | 0x8000000000000001ull) & (pj == v->P->width - 1 ? v->P->high_bitmask : ~(word)0);
#else
  vfill(v->P);
#endif
  v->W = mzd_init_window(v->P, VROFF, 64 * VOFF, VROFF + nr, 64 * VOFF + nc);
  v->nr = nr; v->nc = nc;
  for (rci_t i = 0; i < v->P->nrows; ++i)
    for (wi_t j = 0; j < v->P->rowstride; ++j) v->snap[i * v->P->rowstride + j] = mzd_row_const(v->P, i)[j];
  return v->W;
}
static inline mzd_t *vop(int nr, int nc, int idx) { return vop_raw(nr, nc, idx, 1); }
/* every parent bit outside each view is what it was when the view was created */
static inline int vframes_ok(void) {
  word d = 0;
  for (int k = 0; k < vnviews; ++k) {
    vview_t *v = &vviews[k];
    wi_t w0 = VOFF, w1 = VOFF + (v->nc + 63) / 64; /* words [w0,w1) belong (partly) to the view */
    for (rci_t i = 0; i < v->P->nrows; ++i)
      for (wi_t j = 0; j < v->P->rowstride; ++j) {
        word x = v->snap[i * v->P->rowstride + j] ^ mzd_row_const(v->P, i)[j];
        int inrows = (i >= VROFF && i < VROFF + v->nr);
        if (inrows && j >= w0 && j < w1) {
          if (j == w1 - 1) x &= ~vmask(v->nc); else x = 0;
        }
        d |= x;
      }
  }
  return d == 0;
}
#define VFRAMES() VASSERT(vframes_ok(), "no parent bit outside a view changed")

/* copy the value of the owned matrix G into M (same dims), preserving foreign bits when M is a view */
static inline void vcopy_into(mzd_t *M, mzd_t const *G) {
  for (rci_t i = 0; i < M->nrows; ++i) {
    word *d = mzd_row(M, i);
    word const *g = mzd_row_const(G, i);
    for (wi_t j = 0; j < M->width; ++j) {
      if (j == M->width - 1) d[j] = (g[j] & M->high_bitmask) | (mzd_is_windowed(M) ? (d[j] & ~M->high_bitmask) : 0);
      else d[j] = g[j];
    }
  }
}

#endif /* VERIF_H */
