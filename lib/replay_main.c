/* entry point of the gcc replay build */
#include <stdio.h>
void harness(void);
int main(void) {
  harness();
  printf("REPLAY-NO-FAILURE\n");
  return 0;
}
