/* Reference linear algebra over GF(2) on plain word arrays, written branch-free in the data so that
 * CBMC encodes it compactly (no symbolic array indices, no data-dependent loop bounds).
 * Everything here is independent of m4ri's algorithms: textbook column-by-column elimination. */
#ifndef SPECLA_H
#define SPECLA_H
#include "verif.h"

#ifndef SPEC_MAXR
#define SPEC_MAXR 72
#endif
#ifndef SPEC_MAXW
#define SPEC_MAXW 6
#endif

typedef struct {
  int nr, nc, w;
  word b[SPEC_MAXR * SPEC_MAXW];   /* fully reduced basis rows (in place of the input rows) */
  word pm[SPEC_MAXR * SPEC_MAXW];  /* pm[row] = one-hot mask of that row's pivot column, 0 if none */
  unsigned char used[SPEC_MAXR];   /* row became a pivot row */
  int rank;
  word profile[SPEC_MAXW];         /* mask of pivot columns == column rank profile */
} spec_basis_t;

/* Gauss-Jordan by columns, left to right: the pivot columns found are exactly the column rank
 * profile; the pivot rows form the unique reduced basis of the row space. */
static inline void spec_basis(spec_basis_t *S, word const *a, int nr, int nc, int w) {
  S->nr = nr; S->nc = nc; S->w = w; S->rank = 0;
  for (int i = 0; i < nr; ++i) {
    S->used[i] = 0;
    for (int j = 0; j < w; ++j) { S->b[i * w + j] = a[i * w + j]; S->pm[i * w + j] = 0; }
  }
  for (int j = 0; j < w; ++j) S->profile[j] = 0;
  for (int c = 0; c < nc; ++c) {
    int cw = c / 64;
    word cb = (word)1 << (c % 64);
    word found = 0; /* all-ones once a pivot row for column c has been chosen */
    word prow[SPEC_MAXW];
    for (int j = 0; j < w; ++j) prow[j] = 0;
    for (int i = 0; i < nr; ++i) {
      word has = (word)0 - ((S->b[i * w + cw] >> (c % 64)) & 1);
      word isp = has & ~found & (S->used[i] ? 0 : ~(word)0);
      for (int j = 0; j < w; ++j) prow[j] |= isp & S->b[i * w + j];
      S->pm[i * w + cw] |= isp & cb;
      S->used[i] |= (unsigned char)(isp & 1);
      found |= isp;
    }
    /* eliminate column c from every row except the pivot row itself */
    for (int i = 0; i < nr; ++i) {
      word has = (word)0 - ((S->b[i * w + cw] >> (c % 64)) & 1);
      word ispiv = (S->pm[i * w + cw] & cb) ? ~(word)0 : 0;
      word doit = has & found & ~ispiv;
      for (int j = 0; j < w; ++j) S->b[i * w + j] ^= doit & prow[j];
    }
    S->profile[cw] |= found & cb;
    S->rank += (int)(found & 1);
  }
}

/* 1 iff row (w words) lies in the span of the basis */
static inline int spec_in_span(spec_basis_t const *S, word const *row) {
  word r[SPEC_MAXW];
  int w = S->w;
  for (int j = 0; j < w; ++j) r[j] = row[j];
  for (int i = 0; i < S->nr; ++i) {
    word hit = 0;
    for (int j = 0; j < w; ++j) hit |= r[j] & S->pm[i * w + j];
    word m = hit ? ~(word)0 : 0;
    for (int j = 0; j < w; ++j) r[j] ^= m & S->b[i * w + j]; /* fully reduced basis: one pass suffices */
  }
  word d = 0;
  for (int j = 0; j < w; ++j) d |= r[j];
  return d == 0;
}

/* leading-one mask of a row (one-hot, 0 for a zero row) */
static inline void spec_lead(word const *row, int w, word *lm) {
  word seen = 0;
  for (int j = 0; j < w; ++j) {
    word x = row[j];
    word low = x & ((word)0 - x);
    lm[j] = seen ? 0 : low;
    seen |= x;
  }
}
/* strictly-before relation on one-hot column masks a, b (both non-zero): column(a) < column(b) */
static inline int spec_col_lt(word const *a, word const *b, int w) {
  /* compare as multiword integers, most significant word last */
  int lt = 0, decided = 0;
  for (int j = w - 1; j >= 0; --j) {
    if (!decided && a[j] != b[j]) { lt = a[j] < b[j]; decided = 1; }
  }
  return lt;
}

/* R (nr x w) is a row echelon form: leading columns strictly increasing, zero rows last.
 * reduced != 0: additionally every leading column is zero in all other rows. rank_out = #nonzero rows */
static inline int spec_is_echelon(word const *R, int nr, int w, int reduced, int *rank_out) {
  word lm[SPEC_MAXR * SPEC_MAXW];
  int ok = 1, rank = 0;
  for (int i = 0; i < nr; ++i) spec_lead(R + i * w, w, lm + i * w);
  for (int i = 0; i < nr; ++i) {
    word nz = 0;
    for (int j = 0; j < w; ++j) nz |= lm[i * w + j];
    rank += nz ? 1 : 0;
    if (i > 0) {
      word pnz = 0;
      for (int j = 0; j < w; ++j) pnz |= lm[(i - 1) * w + j];
      if (nz && !pnz) ok = 0;                                            /* zero rows last */
      if (nz && pnz && !spec_col_lt(lm + (i - 1) * w, lm + i * w, w)) ok = 0; /* strictly increasing */
    }
    if (reduced) {
      for (int k = 0; k < nr; ++k) {
        if (k == i) continue;
        word hit = 0;
        for (int j = 0; j < w; ++j) hit |= R[k * w + j] & lm[i * w + j];
        if (hit) ok = 0;
      }
    }
  }
  *rank_out = rank;
  return ok;
}

/* The complete statement for an echelonisation result R of the original a0:
 * returns 1 iff rank_ret == rank(a0), R is a (reduced) row echelon form, and rowspace(R) == rowspace(a0) */
static inline int spec_check_echelon(word const *a0, word const *R, int nr, int nc, int w, int reduced, int rank_ret) {
  static spec_basis_t S;
  spec_basis(&S, a0, nr, nc, w);
  int rr = 0;
  int ok = spec_is_echelon(R, nr, w, reduced, &rr);
  ok = ok && (rr == S.rank) && (rank_ret == S.rank);
  for (int i = 0; i < nr; ++i) ok = ok && spec_in_span(&S, R + i * w);
  return ok;
}

/* reference row / column swaps with (possibly symbolic) indices, branch-free */
static inline void spec_row_swap(word *m, int nr, int w, int a, int b) {
  word ra[SPEC_MAXW], rb[SPEC_MAXW];
  for (int j = 0; j < w; ++j) { ra[j] = 0; rb[j] = 0; }
  for (int i = 0; i < nr; ++i)
    for (int j = 0; j < w; ++j) { ra[j] |= (i == a) ? m[i * w + j] : 0; rb[j] |= (i == b) ? m[i * w + j] : 0; }
  for (int i = 0; i < nr; ++i)
    for (int j = 0; j < w; ++j) {
      word v = m[i * w + j];
      v = (i == a) ? rb[j] : v;
      v = (i == b) ? ra[j] : v;
      m[i * w + j] = v;
    }
}
static inline void spec_col_swap(word *m, int nr, int w, int a, int b) {
  for (int i = 0; i < nr; ++i) {
    word x = 0, y = 0;
    for (int j = 0; j < w; ++j) {
      x |= (j == a / 64) ? ((m[i * w + j] >> (a % 64)) & 1) : 0;
      y |= (j == b / 64) ? ((m[i * w + j] >> (b % 64)) & 1) : 0;
    }
    word d = x ^ y;
    for (int j = 0; j < w; ++j) {
      if (j == a / 64) m[i * w + j] ^= d << (a % 64);
      if (j == b / 64) m[i * w + j] ^= d << (b % 64);
    }
  }
}
#endif
