/* Environment stubs shared by all harnesses (DESIGN.md 3.2). Every stub is part of every claim. */
#include "verif.h"
#include <stdarg.h>

int verif_died         = 0;
int verif_die_expected = 0;

#ifndef REPLAY
/* ------------------------------------------------------------------ CBMC side */
word nondet_word(void);
int nondet_int(void);

word vin_word(void) {
  word w = nondet_word();
  return w;
}
int vin_int(void) {
  int w = nondet_int();
  return w;
}
int vin_range(int lo, int hi) {
  int w = nondet_int();
  __CPROVER_assume(w >= lo && w <= hi);
  return w;
}

/* library error handler: "terminates the process". Formatting dropped. */
void m4ri_die(const char *errormessage, ...) {
#ifdef VERIF_DFCC /* write-frame queries: the stub must not itself write a static; allocation may fail under
                     the contracts library's malloc, which ends the path like the real abort */
  __CPROVER_assume(0);
#endif
  verif_died = 1;
#ifndef WITNESS
  if (!verif_die_expected) __CPROVER_assert(0, "unexpected m4ri_die on a valid call");
#else
#ifdef WITNESS_DIE
  __CPROVER_assert(0, "WITNESS: the library's error handler is reachable");
#endif
#endif
  __CPROVER_assume(0);
}

/* exact integer models of the three libm functions the library uses on concrete arguments */
double sqrt(double x) {
  unsigned long n = (unsigned long)x, r = 0;
  for (int b = 31; b >= 0; --b) {
    unsigned long t = r | (1ul << b);
    if (t * t <= n) r = t;
  }
  return (double)r;
}
double log2(double x) { /* floor(log2(x)) for x >= 1; call sites cast to int */
  int r    = 0;
  double p = 2.0;
  while (p <= x && r < 62) {
    p *= 2.0;
    ++r;
  }
  return (double)r;
}

double round(double x) { /* round half away from zero, x >= 0 at every call site */
  long n = (long)x;
  return (x - (double)n >= 0.5) ? (double)(n + 1) : (double)n;
}
word m4ri_random_word(void) { return nondet_word(); }

/* word-wise memcpy: CBMC's built-in byte-level model turns concrete words into byte-extract terms
 * that symex no longer constant-folds (PASSIVE mode needs the concrete part to stay concrete).
 * mzd_submatrix is the only library caller on matrix data; sizes are concrete multiples of 8 there. */
void *memcpy(void *dst, const void *src, size_t n) {
  if (n % sizeof(word) == 0) {
    word *d = (word *)dst;
    word const *s = (word const *)src;
    for (size_t i = 0; i < n / sizeof(word); ++i) d[i] = s[i];
  } else {
    char *d = (char *)dst;
    char const *s = (char const *)src;
    for (size_t i = 0; i < n; ++i) d[i] = s[i];
  }
  return dst;
}

long random(void) {
  long r = nondet_int();
  __CPROVER_assume(r >= 0);
  return r;
}
int rand(void) {
  int r = nondet_int();
  __CPROVER_assume(r >= 0);
  return r;
}

#if __M4RI_USE_MM_MALLOC || __M4RI_USE_POSIX_MEMALIGN
/* aligned allocators: CBMC objects start at offset 0; the 16/64-byte phase of a pointer is its
 * offset modulo 16/64, which is what the real allocator guarantees. */
int posix_memalign(void **p, size_t al, size_t sz) {
  void *q = malloc(sz);
  if (!q) return 12;
  *p = q;
  return 0;
}
#endif

#else
/* ------------------------------------------------------------------ replay side (gcc) */
#include <stdio.h>
static FILE *vin_f;
static word vin_next(void) {
  if (!vin_f) {
    char const *p = getenv("VERIF_REPLAY");
    vin_f         = p ? fopen(p, "r") : NULL;
    if (!vin_f) {
      fprintf(stderr, "no VERIF_REPLAY input\n");
      exit(5);
    }
  }
  unsigned long long v = 0;
  if (fscanf(vin_f, "%llx", &v) != 1) v = 0;
  return (word)v;
}
word vin_word(void) { return vin_next(); }
int vin_int(void) { return (int)(uint32_t)vin_next(); }
int vin_range(int lo, int hi) {
  int w = (int)(uint32_t)vin_next();
  if (w < lo || w > hi) verif_replay_assume_false("vin_range", 0);
  return w;
}
void verif_replay_fail(const char *msg, const char *file, int line) {
  printf("REPLAY-ASSERT-FAIL %s (%s:%d)\n", msg, file, line);
  fflush(stdout);
  exit(3);
}
void verif_replay_assume_false(const char *file, int line) {
  printf("REPLAY-ASSUME-FALSE (%s:%d)\n", file, line);
  fflush(stdout);
  exit(4);
}
void m4ri_die(const char *errormessage, ...) {
  verif_died = 1;
  if (verif_die_expected) {
    printf("REPLAY-DIED-AS-EXPECTED\n");
    exit(0);
  }
  printf("REPLAY-ASSERT-FAIL unexpected m4ri_die: %s\n", errormessage);
  fflush(stdout);
  exit(3);
}
#endif

/* code books: the real generator, only for the k the scenario needs (DESIGN F2) */
#if __M4RI_ENABLE_MMC && defined(VDIRTY_S0) && !defined(REPLAY)
#include <m4ri/mmc.h>
extern mmb_t m4ri_mmc_cache[__M4RI_MMC_NBLOCKS];
/* C10: put recycled, dirty blocks of the sizes the scenario is about to request into the block cache
 * (CBMC's malloc returns nondeterministic contents), so "fresh" matrices and tables are handed
 * recycled memory with arbitrary contents */
static void vdirty(size_t sz, int slot) {
  void *p = malloc(sz);
  __CPROVER_assume(p != NULL);
  m4ri_mmc_cache[slot].size = sz;
  m4ri_mmc_cache[slot].data = p;
}
#endif

void verif_init(int kmax) {
  if (m4ri_codebook) return;
#if __M4RI_ENABLE_MMC && defined(VDIRTY_S0) && !defined(REPLAY)
  vdirty(VDIRTY_S0, 0);
#ifdef VDIRTY_S1
  vdirty(VDIRTY_S1, 1);
#endif
#ifdef VDIRTY_S2
  vdirty(VDIRTY_S2, 2);
#endif
#ifdef VDIRTY_S3
  vdirty(VDIRTY_S3, 3);
#endif
#endif
  m4ri_codebook = (code **)calloc(__M4RI_MAXKAY + 1, sizeof(code *));
#ifndef REPLAY
  __CPROVER_assume(m4ri_codebook != NULL);
#endif
  for (int k = 1; k <= kmax; ++k) {
    code *cb = (code *)calloc(1, sizeof(code));
    int *o  = (int *)calloc(__M4RI_TWOPOW(k), sizeof(int));
    int *ic = (int *)calloc(__M4RI_TWOPOW(k), sizeof(int));
#ifndef REPLAY
    __CPROVER_assume(cb != NULL && o != NULL && ic != NULL); /* set-up, not part of any scenario */
#endif
    cb->ord = o; cb->inc = ic;
    m4ri_codebook[k] = cb;
    m4ri_build_code(m4ri_codebook[k]->ord, m4ri_codebook[k]->inc, k);
  }
}
