"""C17 -- observers agree with the abstract matrix. FULL symbolic contents; symbolic start positions."""
BOUNDS = {
 "quick": "equal/cmp/is_zero/first_zero_row: 3 rows x ncols in {1,2,63,64,65,127,128,129,192}; owned and views (word offset 1, parent wider, symbolic surroundings); cmp transitivity on 3 symbolic matrices 2 x {1,64,65,130}; find_pivot: 4 rows, ncols in {1,63,64,65,130,200}, start rows {0,1,last} (enumerated) x symbolic start column per 64-column band, all bands; read/write bit symbolic positions",
 "thorough": "adds 5-row shapes, ncols up to 260, views at word offset 2, start columns split in bands",
}
OUTSIDE = "shapes beyond the grid; mzd_cmp/mzd_equal between matrices of different dims only on a few pairs"
ASSUMPTIONS = []

def plan(tier, seed):
    T = tier == "thorough"
    qs = []
    cols = [1, 2, 63, 64, 65, 127, 128, 129, 192] + ([193, 256, 257] if T else [])
    for view in (0, 1):
        for nc in cols:
            nr = 3
            tag = "v" if view else "o"
            d = {"NR": nr, "NC": nc, "VIEW": view}
            qs.append(Q("equal-%s-%dx%d" % (tag, nr, nc), "c17.c", dict(d, H_EQUAL=None, DIMS2=None, NR2=nr, NC2=nc + 1), group="c17-equal"))
            qs.append(Q("iszero-%s-%dx%d" % (tag, nr, nc), "c17.c", dict(d, H_ISZERO=None), group="c17-iszero"))
            qs.append(Q("rwbit-%s-%dx%d" % (tag, nr, nc), "c17.c", dict(d, H_RWBIT=None), group="c17-rwbit", checks="safety"))
        for nc in [1, 64, 65, 130] + ([200] if T else []):
            qs.append(Q("cmptrans-%s-2x%d" % ("v" if view else "o", nc), "c17.c", {"H_CMPTRANS": None, "NR": 2, "NC": nc, "VIEW": view}, group="c17-cmptrans", timeout=600))
        pc = [1, 63, 64, 65, 130, 200] + ([2, 70, 127, 128, 129, 191, 192, 193, 256, 257, 260] if T else [])
        for nc in pc:
            nr = 4 if not T else 5
            for sr in range(nr):
                if not T and sr in (1, 2) and not (nc in (65, 130) and sr == 1): continue
                for band in range((nc + 63) // 64):
                    lo, hi = 64 * band, min(64 * band + 63, nc - 1)
                    qs.append(Q("pivot-%s-%dx%d-sr%d-b%d" % ("v" if view else "o", nr, nc, sr, band), "c17.c",
                                {"H_PIVOT": None, "SCSYM": None, "NR": nr, "NC": nc, "VIEW": view, "SR": sr, "SCLO": lo, "SCHI": hi}, group="c17-pivot", checks="safety",
                                timeout=900, backend="cadical", fallback="kissat", unwindset={"mzd_find_pivot": 66, "mzd_find_pivot@0": 3}))
    if T:
        for nc in (65, 130, 200):
            qs.append(Q("pivot-v2-4x%d" % nc, "c17.c", {"H_PIVOT": None, "NR": 4, "NC": nc, "VIEW": 1, "WOFF": 2, "SR": 1, "SCSYM": None, "SCLO": 64, "SCHI": min(127, nc - 1)}, group="c17-pivot", checks="safety", timeout=900, unwindset={"mzd_find_pivot": 66, "mzd_find_pivot@0": 3}))
    return qs
