"""C20 -- allocation failure always ends in the controlled abort (DESIGN 5/C20)."""
BOUNDS = {
 "quick": "15 scenarios (the slow ones run in the thorough tier, see plans/slow.json): (create/window, header-pool growth with 64 live headers, naive / M4RM / Strassen-front-end products, M4RI / PLUQ / naive elimination, PLE / PLUQ, three inversions, solve + kernel, transpose / copy / submatrix / concat / stack / permutations, DJB compile with > 64 operations, DJB small, string constructor) x configurations {ts, def}: CBMC's --malloc-may-fail --malloc-fail-null makes EVERY allocation of the scenario (malloc, calloc, realloc, posix_memalign stub) return NULL nondeterministically - all fault positions and multi-fault combinations are decided in one query, with CBMC's pointer-validity and bounds checks on (NULL / freed / out-of-object dereference)",
 "thorough": "adds sse/ssedef configurations (mm_malloc path)",
}
OUTSIDE = "scenarios not listed; PNG read/write (libpng allocations are FFI stubs, see C18); allocation failure inside libc itself"
ASSUMPTIONS = ["m4ri_die stub ends the path (controlled abort); data concrete (the property is about control)",
               "a NULL dereference / write through NULL / use of an incomplete object is what CBMC's pointer checks and the completeness assertions detect"]

def plan(tier, seed):
    T = tier == "thorough"
    qs = []
    for cfg in (("ts", "def") if not T else ("ts", "def", "sse", "ssedef")):
        for sc in range(16):
            if sc == 1 and cfg not in ("def", "ssedef"): continue
            us = {}
            if sc == 14: us = {"heap_push": 8, "heap_pop": 8, "mzd_compare_rows_revlex": 3}
            if sc in (10, 11): us = {"heap_push": 8, "heap_pop": 8, "djb_compile": 300 if sc == 10 else 30, "mzd_compare_rows_revlex": 3}
            qs.append(Q("fail-s%d-%s" % (sc, cfg), "c20.c", {"SCEN": sc, "VSEED": 1 + seed}, cfg=cfg, group="c20-%s" % cfg, checks="ptr", malloc_fail=True, unwindset=us,
                        timeout=1500, fallback="kissat", mem_gb=10, cbmc_flags=("--max-field-sensitivity-array-size", "16") if cfg in ("def", "ssedef") else ()))
    return qs
