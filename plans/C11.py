"""C11 -- memory safety and UB (DESIGN 5/C11).
Most of the obligation is discharged inside the other properties' plans, which already run with every
CBMC check enabled (bounds, pointer validity incl. dereference of freed / NULL / out-of-object pointers,
undefined shifts, signed overflow, division by zero): C13, C14, C17, C18, C20.  This plan adds
 (a) the functional scenario grid of C01-C08 re-run at reduced size WITH all checks (they run functional-only there),
 (b) complete call sequences that free everything, under CBMC's memory-leak check (thread-safe config:
     headers are heap objects, so a leaked window header is a reported leak),
 (c) the checked wrappers with incompatible SYMBOLIC dimensions on header-only operands (data == NULL),
 (d) SSE2 leaf kernels at both 16-byte phases (views at word offset 1 and 2)."""
BOUNDS = {
 "quick": "(a) ~45 scenarios from the C01/C02/C03/C04/C05/C06/C07/C08 grids at small shapes with bounds/pointer/shift/overflow checks; (b) 7 leak scenarios; (c) 19 wrappers x dimensions symbolic in [1,300]; (d) SSE2 leaf kernels only in the thorough tier",
 "thorough": "more shapes in (a), SSE2 m4rm / row_add_offset",
}
OUTSIDE = "alignment traps inside libc; misaligned-vector faults are modelled as the library's own alignment assert()s plus CBMC's pointer checks (CBMC has no alignment trap); sizes beyond the grids"
ASSUMPTIONS = ["pointer-arithmetic-only UB (forming, not dereferencing, a pointer past one-past-the-end; cross-object pointer subtraction in mzd_t_free) is listed in coverage.pointer_arithmetic_only_notes and not counted as a violation: no access happens and no sanitizer confirms it"]
FS = ("--max-field-sensitivity-array-size", "300")

def plan(tier, seed):
    T = tier == "thorough"
    qs = []
    def S(name, harness, d, **kw):
        kw.setdefault("checks", "safety"); kw.setdefault("timeout", 1500); kw.setdefault("fallback", "kissat"); kw.setdefault("mem_gb", 10)
        kw.setdefault("group", "c11-" + harness[:-2])
        qs.append(Q(name, harness, d, **kw))
    # (a) functional scenarios with all checks
    for (nc, al) in [(1, 0), (64, 1), (65, 2), (130, 3), (513, 0), (577, 1)]:
        S("add-3x%d-a%d" % (nc, al), "c08.c", {"H_ADD": None, "NR": 3, "NC": nc, "ALIAS": al})
    for (m, n) in [(1, 1), (7, 33), (33, 7), (64, 65), (65, 64), (17, 129), (3, 130), (70, 70)]:
        S("transpose-%dx%d" % (m, n), "c08.c", {"H_TRANSPOSE": None, "NR": m, "NC": n, "DSTM": (m + n) % 2})
    for off in (0, 1, 31, 63):
        S("submatrix-off%d" % off, "c08.c", {"H_SUBMATRIX": None, "PR": 3, "PC": 200, "R0": 1, "C0": off, "R1": 3, "C1": off + 70, "DSTM": 0})
        S("submatrix64-off%d" % off, "c08.c", {"H_SUBMATRIX": None, "PR": 2, "PC": 200, "R0": 0, "C0": off, "R1": 2, "C1": off + 64, "DSTM": 1})
        S("submatrix128-off%d" % off, "c08.c", {"H_SUBMATRIX": None, "PR": 4, "PC": 200, "R0": 0, "C0": off, "R1": 4, "C1": off + 128, "DSTM": 0})
    S("concat-65+3", "c08.c", {"H_CONCAT": None, "NR": 2, "NCA": 65, "NCB": 3, "DSTM": 0})
    S("stack-2+3x65", "c08.c", {"H_STACK": None, "NRA": 2, "NRB": 3, "NC": 65, "DSTM": 0})
    S("extractl-66x130", "c08.c", {"H_EXTRACT": None, "NR": 66, "NC": 130, "UPPER": 0, "DSTM": 0})
    S("extractu-66x130", "c08.c", {"H_EXTRACT": None, "NR": 66, "NC": 130, "UPPER": 1, "DSTM": 0})
    for (m, l, n, route, k) in [(2, 65, 53, 0, 0), (3, 70, 64, 0, 0), (2, 5, 70, 1, 0), (16, 3, 54, 4, 2), (16, 17, 54, 5, 2), (16, 9, 70, 4, 9)]:
        S("mul%d-%dx%dx%d-k%d" % (route, m, l, n, k), "c01.c", {"MM": m, "LL": l, "NN": n, "ROUTE": route, "KPAR": k, "CMODE": 1, "KINIT": 8,
          "A_SYM_R0": 0, "A_SYM_R1": 2, "A_SYM_W0": 0, "A_SYM_W1": 1}, timeout=1800)
    for v in (0, 1, 2, 3):
        d = {"VARIANT": v, "NT": 8, "KINIT": 1}
        if v <= 1: d["NB"] = 65
        else: d["MB"] = 3
        S("trsm%d-n8" % v, "c04.c", d)
        d = {"VARIANT": v, "NT": 70, "T_SYM_R0": 0, "T_SYM_R1": 0, "T_SYM_W0": 0, "T_SYM_W1": 0}
        if v <= 1: d["NB"] = 70
        else: d["MB"] = 3
        S("trsm%d-n70" % v, "c04.c", d, timeout=2400)
    for alg in (2, 3, 6):
        for full in (0, 1):
            if alg == 6 and not full: continue
            S("ech%d-f%d-8x134" % (alg, full), "c02.c", {"NR": 8, "NC": 134, "ALG": alg, "MODE": 1, "KW": 1, "PROF": 1, "FULLRED": full, "RSYM": 7, "LASTCONC": None, "CONCK": None}, cbmc_flags=FS)
    S("ech0-3x3", "c02.c", {"NR": 3, "NC": 3, "ALG": 0, "MODE": 0, "KINIT": 1}, unwindset={"mzd_gauss_delayed": 5})
    for alg in (2, 3):
        S("ple%d-8x134" % alg, "c03.c", {"NR": 8, "NC": 134, "ALG": alg, "MODE": 1, "KW": 1, "PROF": 1, "RSYM": 7, "LASTCONC": None, "CONCK": None}, cbmc_flags=FS)
    S("ple2-rec-8x198", "c03.c", {"NR": 8, "NC": 198, "ALG": 2, "MODE": 1, "KW": 2, "PROF": 2, "RSYM": 7, "LASTCONC": None, "CONCK": None}, cfg="tinyple", cbmc_flags=FS, timeout=2400)
    S("trtri-n12", "c05.c", {"H_TRTRI": None, "NN": 12}, timeout=2400)
    S("solve-3x5", "c06.c", {"MA": 3, "NA": 5, "NB": 3, "APAT": 0, "ROUTE": 0}, cbmc_flags=FS)
    S("solve-5x3-rd", "c06.c", {"MA": 5, "NA": 3, "NB": 3, "APAT": 5, "RDEF": 2, "ROUTE": 0}, cbmc_flags=FS)
    S("kernel-4x70", "c07.c", {"NR": 4, "NC": 70, "KW": 1, "PROF": 1, "EXPECT_RANK": 4, "RSYM": 3, "LASTCONC": None, "CONCK": None}, cbmc_flags=FS)
    # (b) leaks
    for sc in range(7):
        S("leak-s%d" % sc, "c11.c", {"H_LEAK": None, "SCEN": sc}, leak=True, group="c11-leak", cbmc_flags=FS)
    # (c) wrappers with incompatible dimensions
    for w in range(19):
        S("baddims-w%d" % w, "c11.c", {"H_BADDIMS": None, "WRAP": w, "WITNESS_DIE": None}, group="c11-baddims", timeout=600, unwind=2, unwindset={"sqrt": 40, "log2": 70},
          remove_bodies=("_mzd_mul_even", "_mzd_sqr_even", "_mzd_addmul", "_mzd_addmul_even", "_mzd_addsqr_even", "_mzd_mul_m4rm", "_mzd_mul_naive", "_mzd_mul_va",
                         "_mzd_trsm_lower_left", "_mzd_trsm_upper_left", "_mzd_trsm_upper_right", "_mzd_trsm_lower_right", "_mzd_add", "_mzd_solve_left", "_mzd_ple", "_mzd_pluq",
                         "_mzd_pluq_solve_left", "_mzd_transpose") + (("mzd_transpose",) if w != 12 else ()))  # code behind the dimension checks is unreachable under the assumption; cut its loops (unwinding assertions there hold vacuously)
    # (d) SSE2 leaf kernels, both phases
    SSE_US = {"mzd_combine_even": 14, "mzd_combine_even_in_place": 14, "mzd_row_add_offset": 14, "_mzd_combine.*": 14}
    for vo in ((1, 2) if T else ()):   # 18 GB / > 5 min each (measured): thorough tier
        S("sse-add-2x577-o%d" % vo, "c08.c", {"H_ADD": None, "NR": 2, "NC": 577, "ALIAS": 1, "VIEWMASK": 7, "VOFF": vo, "VEXTRA": 70}, cfg="sse", timeout=2400, mem_gb=28, unwindset=SSE_US, group="c11-sse")
    if T:
        for vo in (1, 2):
            S("sse-rowadd-3x577-o%d" % vo, "c13.c", {"H_ROWADD": None, "NR": 3, "NC": 577, "VIEWMASK": 4, "VOFF": vo, "VEXTRA": 70}, cfg="sse", timeout=2400, mem_gb=20, unwindset=SSE_US, group="c11-sse")
    return qs
