"""C09 -- views: operations on a window read and write only the viewed block (DESIGN 5/C09).
Re-uses the functional harnesses of C01/C02/C04/C05/C08/C13/C17 with operands turned into windows of
larger parents (VIEWMASK bit per operand: 1 = first source, 2 = second source, 4 = destination /
in-place operand).  Every parent word is symbolic; each harness asserts the functional oracle on the
viewed block AND that no parent bit outside any view changed (VFRAMES)."""
BOUNDS = {
 "quick": "placements: row offset 1, word offset in {1,2} (both 16-byte phases), view width mod 64 in {0,1,63}, parent 70 columns wider or ending with the view; operations: add (all operand positions), copy, copy_row, set_ui, transpose (src / dst view), submatrix, concat, stack, extract_u/l, row_swap, col_swap, row_add_offset, xor/clear/read bits, combine family, apply_p_left / apply_p_right(_trans), naive / M4RM / Strassen-wrapper products with each of C, A, B a view, TRSM (T and B views), M4RI / PLUQ / hybrid echelonisation and top-reduction of a view (PASSIVE), trtri of a view, observers on views (C17 harness)",
 "thorough": "more shapes/placements per operation, SSE2 configuration for add / row_add / combine / trtri at odd word offset",
}
OUTSIDE = "operations not in the table (mzd_randomize, printing, I/O), shapes beyond the grid, eliminations only in PASSIVE mode"
ASSUMPTIONS = ["a parent is an owned matrix (zero excess bits) with otherwise arbitrary content"]
FS = ("--max-field-sensitivity-array-size", "400")

def plan(tier, seed):
    T = tier == "thorough"
    qs = []
    def V(name, harness, d, vm, voff=1, vextra=70, **kw):
        d = dict(d); d["VIEWMASK"] = vm; d["VOFF"] = voff; d["VEXTRA"] = vextra
        kw.setdefault("group", "c09-" + name.split("-")[0])
        kw.setdefault("timeout", 900)
        kw.setdefault("fallback", "z3")
        qs.append(Q("%s-vm%d-o%d-x%d" % (name, vm, voff, vextra), harness, d, **kw))
    places = [(1, 70), (2, 70), (1, 0)] if not T else [(1, 70), (2, 70), (1, 0), (2, 0), (3, 70)]
    # ---- c08 family
    for nc in (1, 63, 64, 65, 130):
        for vm in (1, 2, 4, 7):
            for (vo, vx) in places:
                if not T and nc in (63, 130) and (vo, vx) != (1, 70): continue
                V("add-3x%d" % nc, "c08.c", {"H_ADD": None, "NR": 3, "NC": nc, "ALIAS": 1}, vm, vo, vx)
        V("addC=A-3x%d" % nc, "c08.c", {"H_ADD": None, "NR": 3, "NC": nc, "ALIAS": 2}, 1)
        V("addC=B-3x%d" % nc, "c08.c", {"H_ADD": None, "NR": 3, "NC": nc, "ALIAS": 3}, 2)
    for vm in (1, 4, 7):
        V("add-2x577", "c08.c", {"H_ADD": None, "NR": 2, "NC": 577, "ALIAS": 1}, vm, 1, 70)
    for (r, c) in [(2, 1), (2, 63), (2, 64), (2, 65), (3, 130)]:
        for vm in (1, 4, 5):
            for (vo, vx) in places[:2]:
                V("copy-%dx%d" % (r, c), "c08.c", {"H_COPY": None, "NR": r, "NC": c, "DSTM": 1}, vm, vo, vx)
        V("setui-%dx%d" % (r, c), "c08.c", {"H_SETUI": None, "NR": r, "NC": c}, 4)
        V("setui-%dx%d" % (r, c), "c08.c", {"H_SETUI": None, "NR": r, "NC": c}, 4, 2, 0)
        V("copyrow-%d" % c, "c08.c", {"H_COPYROW": None, "NRA": 2, "NC": c, "NRB": 3, "NCB": c, "IB": 1, "JA": 1}, 5)
    for (m, n) in [(3, 5), (5, 70), (70, 5), (65, 65), (17, 33), (64, 63)]:
        for vm in (1, 4, 5):
            V("transpose-%dx%d" % (m, n), "c08.c", {"H_TRANSPOSE": None, "NR": m, "NC": n, "DSTM": 1}, vm, timeout=1200)
        V("transposeNULL-%dx%d" % (m, n), "c08.c", {"H_TRANSPOSE": None, "NR": m, "NC": n, "DSTM": 0}, 1, timeout=1200)
    for (pr, pc, r0, c0, r1, c1) in [(3, 200, 1, 5, 3, 75), (3, 200, 1, 64, 3, 134), (2, 130, 0, 63, 2, 128), (2, 70, 0, 0, 2, 70)]:
        for vm in (1, 4, 5):
            V("submatrix-%dx%d-%d.%d" % (pr, pc, c0, c1), "c08.c", {"H_SUBMATRIX": None, "PR": pr, "PC": pc, "R0": r0, "C0": c0, "R1": r1, "C1": c1, "DSTM": 1}, vm)
    for (a, b) in [(65, 70), (65, 3), (3, 65), (64, 64), (1, 1), (63, 1)]:
        for vm in (1, 2, 4, 7):
            V("concat-%d+%d" % (a, b), "c08.c", {"H_CONCAT": None, "NR": 2, "NCA": a, "NCB": b, "DSTM": 1}, vm)
    for nc in (1, 64, 70):
        for vm in (1, 2, 4, 7):
            V("stack-%d" % nc, "c08.c", {"H_STACK": None, "NRA": 2, "NRB": 2, "NC": nc, "DSTM": 1}, vm)
    for (r, c) in [(5, 70), (66, 66)]:
        for up in (0, 1):
            for vm in (1, 4):
                V("extract%d-%dx%d" % (up, r, c), "c08.c", {"H_EXTRACT": None, "NR": r, "NC": c, "UPPER": up, "DSTM": 1}, vm)
    # ---- c13 family (in-place operand = bit 2)
    US = {"mzd_col_swap_in_rows": 8, "mzd_row_clear_offset": 6, "mzd_row_add_offset": 6, "mzd_apply_p_right_trans_tri": 80}
    for nc in (1, 65, 130):
        d = {"NR": 3, "NC": nc}
        for (vo, vx) in places[:2] + [(1, 0)]:
            V("rowswap-3x%d" % nc, "c13.c", dict(d, H_ROWSWAP=None), 4, vo, vx, unwindset=US)
            V("rowadd-3x%d" % nc, "c13.c", dict(d, H_ROWADD=None), 4, vo, vx, unwindset=US)
            if nc != 130 or T:
                V("colswap-3x%d" % nc, "c13.c", dict(d, H_COLSWAP=None), 4, vo, vx, unwindset=US, timeout=1500)
            for op in (1, 2):
                V("bits%d-2x%d" % (op, nc), "c13.c", dict(d, H_BITS=None, OP=op, NR=2), 4, vo, vx, unwindset=US)
    for nc in (63, 128, 577):
        for mode in (0, 1):
            for vm in ((1, 2, 4, 7) if mode else (1, 2, 3)):
                V("combine%d-3x%d" % (mode, nc), "c13.c", {"H_COMBINE": None, "NR": 3, "NC": nc, "SB": 0, "MODE": mode}, vm, unwindset=US)
    for tr in (0, 1):
        V("pleft%d-5x70" % tr, "c13.c", {"H_PLEFT": None, "NR": 5, "NC": 70, "PL": 5, "TRANS": tr}, 4, unwindset=US)
        V("pleft%d-5x70" % tr, "c13.c", {"H_PLEFT": None, "NR": 5, "NC": 70, "PL": 5, "TRANS": tr}, 4, 2, 0, unwindset=US)
        for nc in (5, 40):
            V("pright%d-3x%d" % (tr, nc), "c13.c", {"H_PRIGHT": None, "NR": 3, "NC": nc, "PL": nc, "TRANS": tr, "WLO": 0, "WHI": 5}, 4, unwindset=US, timeout=1500)
        V("pright%d-3x70-w60" % tr, "c13.c", {"H_PRIGHT": None, "NR": 3, "NC": 70, "PL": 70, "TRANS": tr, "WLO": 60, "WHI": 65}, 4, unwindset=US, timeout=1500)
    # ---- c01 family: products with C / A / B views
    for (m, l, n, route, k) in [(3, 5, 3, 0, 0), (2, 65, 70, 0, 0), (2, 65, 70, 1, 0), (16, 3, 54, 4, 2), (16, 3, 54, 5, 2), (16, 5, 70, 6, 0), (16, 5, 70, 7, 0), (3, 3, 65, 6, 0)]:
        for vm in (1, 2, 4, 7):
            for (vo, vx) in ((1, 70), (2, 0)):
                if not T and (vo, vx) == (2, 0) and vm in (1, 2): continue
                V("mul%d-%dx%dx%d" % (route, m, l, n), "c01.c", {"MM": m, "LL": l, "NN": n, "ROUTE": route, "KPAR": k, "CUTOFF": 64 if route >= 6 else 0, "CMODE": 1, "KINIT": 8}, vm, vo, vx,
                  timeout=1500, fallback="kissat", mem_gb=8)
    # ---- c04 family: TRSM with T / B views
    for v in (0, 1, 2, 3):
        for vm in (1, 4, 5):
            d = {"VARIANT": v, "NT": 8, "KINIT": 1}
            if v <= 1: d["NB"] = 65
            else: d["MB"] = 3
            V("trsm%d-n8" % v, "c04.c", d, vm, timeout=1200, fallback="kissat")
            V("trsm%d-n8" % v, "c04.c", d, vm, 2, 0, timeout=1200, fallback="kissat")
        d = {"VARIANT": v, "NT": 70, "T_SYM_R0": 0, "T_SYM_R1": 0, "T_SYM_W0": 0, "T_SYM_W1": 0}
        if v <= 1: d["NB"] = 70
        else: d["MB"] = 3
        V("trsm%d-n70" % v, "c04.c", d, 5, timeout=1800, backend="z3", fallback="cadical", mem_gb=10)
    # ---- c02: echelonisation of a view (PASSIVE)
    for alg in (0, 2, 3, 4, 6):
        for full in (0, 1):
            if alg == 6 and full == 0: continue
            d = {"NR": 8, "NC": 134, "ALG": alg, "MODE": 1, "KW": 1, "PROF": 1, "FULLRED": full, "RSYM": 7, "LASTCONC": None, "CONCK": None, "VSEED": 1 + seed}
            if alg in (0, 3, 4): d["VPARENT_CONC"] = None   # PLE-based / naive routes test whole rows for zero: symbolic parent bits in the shared word would make control symbolic
            kw = {}
            if alg == 4: kw["replace_calls"] = {"_mzd_density": "verif_density_stub"}; d["DENSSEQ"] = 1
            if alg == 0: kw["unwindset"] = {"mzd_gauss_delayed": 140}
            V("ech%d-f%d-8x134" % (alg, full), "c02.c", d, 4, 1, 70, cbmc_flags=FS, timeout=1500, mem_gb=10, **kw)
            V("ech%d-f%d-8x134" % (alg, full), "c02.c", d, 4, 2, 0, cbmc_flags=FS, timeout=1500, mem_gb=10, **kw)
    for full in (0, 1):
        d = {"NR": 8, "NC": 70, "ALG": 2, "MODE": 1, "KW": 2, "PROF": 2, "FULLRED": full, "KPAR": 1, "RSYM": 7, "LASTCONC": None, "CONCK": None, "VPARENT_CONC": None}
        V("ech2-lastword-f%d-8x70" % full, "c02.c", d, 4, 1, 70, cbmc_flags=FS, timeout=1500, mem_gb=10)
        d2 = dict(d, NR=12, NC=72, PROF=7, GAPAT=0, GAPLEN=58, KPAR=1, RSYM=11)
        V("ech2-lastword12-f%d-12x72" % full, "c02.c", d2, 4, 2, 70, cbmc_flags=FS, timeout=1500, mem_gb=10)
    # ---- c05: trtri of a view
    for n in (5, 12, 70):
        d = {"H_TRTRI": None, "NN": n}
        if n == 70: d.update({"U_SYM_R0": 0, "U_SYM_R1": 8, "U_SYM_W0": 1, "U_SYM_W1": 2})
        for (vo, vx) in ((1, 70), (2, 0)):
            V("trtri-n%d" % n, "c05.c", d, 4, vo, vx, timeout=2400, fallback="kissat", mem_gb=10, cbmc_flags=("--max-field-sensitivity-array-size", "600"))
    # ---- c17: observers on views
    for nc in (1, 63, 65, 130):
        qs.append(Q("obs-iszero-3x%d" % nc, "c17.c", {"H_ISZERO": None, "NR": 3, "NC": nc, "VIEW": 1}, group="c09-obs"))
        qs.append(Q("obs-equal-3x%d" % nc, "c17.c", {"H_EQUAL": None, "NR": 3, "NC": nc, "VIEW": 1}, group="c09-obs"))
    if T:
        SSE_US = {"mzd_combine_even": 14, "mzd_combine_even_in_place": 14, "mzd_row_add_offset": 14, "_mzd_combine.*": 14}
        for vm in (1, 4, 7):
            for vo in (1, 2):
                V("sse-add-2x577", "c08.c", {"H_ADD": None, "NR": 2, "NC": 577, "ALIAS": 1}, vm, vo, 70, cfg="sse", timeout=2400, mem_gb=20, unwindset=SSE_US)
        for vo in (1, 2):
            V("sse-rowadd-3x577", "c13.c", {"H_ROWADD": None, "NR": 3, "NC": 577}, 4, vo, 70, cfg="sse", timeout=2400, mem_gb=20, unwindset=SSE_US)
    return qs
