"""C05 -- inversion (DESIGN 5/C05)."""
BOUNDS = {
 "quick": "mzd_inv_m4ri wrapper with the elimination replaced by its contract stub: A FULL symbolic, n in {1,2,3,8,63,64,65,70}, B NULL or supplied dirty, table parameter symbolic (any int); the contract itself is C02's PASSIVE result; mzd_invert_naive FULL n<=3 (assumed invertible by the reference rank); mzd_trtri_upper FULL symbolic unit upper triangular n in {1,2,3,5,8,12}, REGION (one symbolic word band, rest concrete) n in {64,65,70,130}, recursion via tinyL3 (L3=256 B) at n=130",
 "thorough": "trtri FULL n<=16, more bands/seeds; inversion wrapper n up to 130",
}
OUTSIDE = "whole-run M4RI inversion for all invertible A (wrapper + contract split; the contract is established only for passive columns, see C02); trtri beyond the grid"
ASSUMPTIONS = ["H_INVWRAP: mzd_echelonize_m4ri replaced by a stub asserting its precondition (full, admissible k, [A|I] layout) and assuming its post-condition (C = [I | X], A*X = I); singular A make the assumption unsatisfiable and are excluded, as in the property"]

def plan(tier, seed):
    T = tier == "thorough"
    qs = []
    for n in [1, 2, 3, 8, 63, 64, 65, 70] + ([128, 130] if T else []):
        for bm in (0, 1):
            qs.append(Q("invwrap-n%d-b%d" % (n, bm), "c05.c", {"H_INVWRAP": None, "NN": n, "BMODE": bm, "KINIT": 1}, group="c05-invwrap",
                        replace_calls={"mzd_echelonize_m4ri": "verif_ech_stub"}, timeout=1500, fallback="kissat", mem_gb=10))
    for n in [1, 2, 3] + ([4] if T else []):
        qs.append(Q("invnaive-n%d" % n, "c05.c", {"H_INVNAIVE": None, "NN": n}, group="c05-invnaive", unwindset={"mzd_gauss_delayed": 2 * n + 2}, timeout=2400, fallback="kissat", mem_gb=8))
    for n in [1, 2, 3, 5, 8, 12] + ([16] if T else []):
        qs.append(Q("trtri-full-n%d" % n, "c05.c", {"H_TRTRI": None, "NN": n}, group="c05-trtri", timeout=2400, fallback="kissat", mem_gb=10))
    for n in [64, 65, 70, 130] + ([128, 192] if T else []):
        w = (n + 63) // 64
        bands = [(0, 8, w - 1, w), (max(0, n - 70), n - 60 if n > 70 else n, w - 1, w)] if n > 64 else [(0, 8, 0, 1), (40, 48, 0, 1)]
        for bi, (r0, r1, w0, w1) in enumerate(bands):
            qs.append(Q("trtri-band%d-n%d" % (bi, n), "c05.c", {"H_TRTRI": None, "NN": n, "U_SYM_R0": r0, "U_SYM_R1": r1, "U_SYM_W0": w0, "U_SYM_W1": w1, "VSEED": 1 + seed},
                        group="c05-trtri", timeout=2400, fallback="kissat", mem_gb=10, cbmc_flags=("--max-field-sensitivity-array-size", "600")))
    qs.append(Q("trtri-rec-n130-tinyL3", "c05.c", {"H_TRTRI": None, "NN": 130, "U_SYM_R0": 0, "U_SYM_R1": 6, "U_SYM_W0": 2, "U_SYM_W1": 3, "VSEED": 1 + seed},
                cfg="tinyL3", group="c05-trtri", timeout=2400, fallback="kissat", mem_gb=10, cbmc_flags=("--max-field-sensitivity-array-size", "600")))
    return qs
