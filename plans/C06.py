"""C06 -- linear system solving (DESIGN 5/C06)."""
BOUNDS = {
 "quick": "A concrete (random / sparse / zero / rank-deficient / identity-like, shapes m<n, m=n, m>n up to 8x8, 3x70, 70x3), B = max(m,n) x {1,3,65} FULLY symbolic including padding rows: every consistent and inconsistent right-hand side; both mzd_solve_left and _mzd_pluq + mzd_pluq_solve_left; inconsistency_check 1 (verdict compared with the reference elimination of [A|B]) and 0",
 "thorough": "more seeds and shapes up to 12x12, 5x130, widths of B to 130, cutoffs",
}
OUTSIDE = "symbolic A (the PLUQ control flow cannot be executed symbolically, DESIGN F17): the quantifier over A is covered by concrete families only"
ASSUMPTIONS = ["A concrete per query (family + seed recorded); claim is 'for all B'"]
FS = ("--max-field-sensitivity-array-size", "300")

def plan(tier, seed):
    T = tier == "thorough"
    qs = []
    shapes = [(1, 1), (2, 2), (3, 3), (2, 3), (3, 2), (3, 5), (5, 3), (8, 8), (4, 8), (8, 4), (3, 70), (70, 3)] + ([(12, 12), (5, 130), (130, 5), (6, 66)] if T else [])
    pats = [(0, None), (1, None), (2, None), (5, 1), (5, 2), (6, None)]
    for (m, n) in shapes:
        for (pat, rdef) in pats:
            if pat == 5 and rdef >= m: continue
            if not T and (m, n) in ((3, 70), (70, 3)) and pat in (1, 6): continue
            for nb in ((1, 65) if not T else (1, 3, 65, 130)):
                if not T and nb == 65 and pat not in (0, 5): continue
                for route in (0, 1):
                    if route == 1 and (pat not in (0, 5) or nb != 1): continue
                    d = {"MA": m, "NA": n, "NB": nb, "APAT": pat, "ROUTE": route, "VSEED": 1 + seed}
                    if rdef is not None: d["RDEF"] = rdef
                    qs.append(Q("solve%d-%dx%d-p%d%s-b%d" % (route, m, n, pat, ("r%d" % rdef) if rdef else "", nb), "c06.c", d, group="c06-solve",
                                backend="cadical", fallback="z3", timeout=1200, mem_gb=8, cbmc_flags=FS))
    for (m, n) in [(3, 3), (2, 3), (3, 2)]:
        qs.append(Q("solve0-%dx%d-nocheck" % (m, n), "c06.c", {"MA": m, "NA": n, "NB": 3, "APAT": 0, "ROUTE": 0, "ICHECK": 0}, group="c06-solve", timeout=900, cbmc_flags=FS))
    return qs
