"""C07 -- kernel routine (DESIGN 5/C07)."""
BOUNDS = {
 "quick": "PASSIVE A = [K | S]: K = 64*KW concrete columns with full row rank (rank-profile families incl. word-boundary gaps), S = 6..70 fully symbolic columns, 4-8 rows => n - r >= 1 kernel vectors depending on S; asserted: non-NULL, K is n x (n-r), A0*K == 0, rank(K) == n-r; NULL case: full column rank concrete inputs (tall) and square; zero matrix; rank-deficient with concrete zero-K rows",
 "thorough": "more rows (12), 2-word K, nullity exactly 64 and 128, more seeds",
}
OUTSIDE = "all rank profiles: the pivot structure (K) is concrete per query; fully symbolic inputs are out of reach (PLUQ control)"
ASSUMPTIONS = ["PASSIVE: K concrete per query; last row concrete"]
FS = ("--max-field-sensitivity-array-size", "400")

def plan(tier, seed):
    T = tier == "thorough"
    qs = []
    def P(name, nr, nc, kw, prof, rank, rsym=None, conck=True, extra=None, to=1500):
        d = {"NR": nr, "NC": nc, "KW": kw, "PROF": prof, "EXPECT_RANK": rank, "VSEED": 1 + seed, "RSYM": rsym if rsym is not None else nr - 1, "LASTCONC": None}
        if conck: d["CONCK"] = None
        if extra: d.update(extra)
        qs.append(Q(name, "c07.c", d, group="c07-kernel", backend="cadical", fallback="kissat", timeout=to, mem_gb=10, cbmc_flags=FS))
    for prof in (0, 1):
        P("k-4x70-p%d" % prof, 4, 70, 1, prof, 4)
        P("k-8x134-p%d" % prof, 8, 134, 1, prof, 8, to=2400)
        P("k-8x72-p%d" % prof, 8, 72, 1, prof, 8)
    for prof in (2, 3, 4):
        P("k-6x134-p%d" % prof, 6, 134, 2, prof, 6, to=2400)
    P("k-gapword-6x198", 6, 198, 2, 7, 6, extra={"GAPAT": 3, "GAPLEN": 61}, to=2400)
    # nullity exactly 64: n - r == 64 (word-multiple tail of the U copy loop)
    P("k-4x68-null64", 4, 68, 1, 0, 4)
    P("k-6x70-null64", 6, 70, 1, 1, 6)
    if T:
        P("k-6x134-null128", 6, 134, 1, 1, 6, to=3000)
        P("k-12x134-p1", 12, 134, 1, 1, 12, to=3000)
    # rank-deficient: 2 rows with zero K-part and concrete S-part
    P("k-rankdef-6x70", 6, 70, 1, 1, 6, rsym=4, conck=False)
    # full column rank => NULL (concrete tall inputs: nothing symbolic but the routine's verdict path is checked)
    qs.append(Q("k-null-70x64", "c07.c", {"NR": 70, "NC": 64, "KW": 1, "PROF": 0, "RSYM": 0, "CONCK": None, "VSEED": 1 + seed}, group="c07-kernel", timeout=900, cbmc_flags=FS))
    qs.append(Q("k-null-5x5", "c07.c", {"NR": 5, "NC": 5, "KW": 1, "PROF": 7, "RSYM": 0, "CONCK": None}, group="c07-kernel", timeout=900, cbmc_flags=FS))
    qs.append(Q("k-zero-3x70", "c07.c", {"NR": 3, "NC": 70, "KW": 1, "PROF": 0, "RSYM": 0, "ALLZERO": None, "EXPECT_RANK": 0}, group="c07-kernel", timeout=900, cbmc_flags=FS))
    return qs
