"""C10 -- results are pure functions of operand values; owned matrices keep zero padding (DESIGN 5/C10).
No separate engine: (a) EVERY functional harness of C01-C09 already starts from a destination filled
with symbolic junk and from a heap whose malloc'ed blocks hold nondeterministic contents (CBMC's memory
model) and asserts zero padding of every owned result, so any dependence on stale memory breaks the
functional assertion for some heap content; this plan (b) re-runs a subset in the default configuration
(block cache + header pool ON) with the block cache pre-loaded with DIRTY recycled blocks of exactly the
byte sizes the scenario is about to request, so 'fresh' matrices / temporaries / lookup tables are handed
recycled memory with arbitrary contents, and (c) runs the supplied-destination variants."""
BOUNDS = {
 "quick": "default-cache configuration with dirty recycled blocks: add, transpose (NULL and dirty destination), copy, submatrix, concat, stack, naive/M4RM products (NULL / dirty C, accumulate), TRSM, M4RI/PLUQ echelonisation (PASSIVE), PLE, inversion wrapper, kernel, mzd_init freshness at the block-cache threshold (config defsmall: threshold 256 bytes)",
 "thorough": "more shapes per operation",
}
OUTSIDE = "histories are represented by the cache state they leave behind (arbitrary dirty blocks of the requested sizes) - sequences of earlier library calls are not replayed; sizes beyond the grids (e.g. a 32 MiB block) are outside"
ASSUMPTIONS = ["the observable effect of a call history on a later call is the content of the block cache / header pool and of the heap; the heap is nondeterministic in CBMC, the cache is pre-loaded with dirty blocks"]
FS16 = ("--max-field-sensitivity-array-size", "16")

def rs(c):
    w = (c + 63) // 64
    return w if w % 2 == 0 else w + 1
def sz(r, c):
    return r * rs(c) * 8

def plan(tier, seed):
    T = tier == "thorough"
    qs = []
    def D(name, harness, d, sizes, cfg="def", **kw):
        d = dict(d)
        for i, s in enumerate(sizes[:4]): d["VDIRTY_S%d" % i] = s
        kw.setdefault("timeout", 1500); kw.setdefault("fallback", "z3"); kw.setdefault("mem_gb", 10)
        kw.setdefault("cbmc_flags", FS16)
        qs.append(Q("dirty-" + name, harness, d, cfg=cfg, group="c10-" + harness[:-2] + "-" + cfg, **kw))
    for (nr, nc) in [(3, 64), (3, 65), (2, 130)]:
        D("add-%dx%d-null" % (nr, nc), "c08.c", {"H_ADD": None, "NR": nr, "NC": nc, "ALIAS": 0}, [sz(nr, nc)])
        D("add-%dx%d-dst" % (nr, nc), "c08.c", {"H_ADD": None, "NR": nr, "NC": nc, "ALIAS": 1}, [sz(nr, nc)])
        D("copy-%dx%d" % (nr, nc), "c08.c", {"H_COPY": None, "NR": nr, "NC": nc, "DSTM": 0}, [sz(nr, nc)])
    for (m, n) in [(3, 5), (5, 70), (70, 5), (17, 33), (65, 64)]:
        D("transpose-%dx%d-null" % (m, n), "c08.c", {"H_TRANSPOSE": None, "NR": m, "NC": n, "DSTM": 0}, [sz(n, m), sz(m, n)])
        D("transpose-%dx%d-dst" % (m, n), "c08.c", {"H_TRANSPOSE": None, "NR": m, "NC": n, "DSTM": 1}, [sz(n, m)])
    D("submatrix-3x200", "c08.c", {"H_SUBMATRIX": None, "PR": 3, "PC": 200, "R0": 1, "C0": 5, "R1": 3, "C1": 75, "DSTM": 0}, [sz(2, 70)])
    D("concat-65+3", "c08.c", {"H_CONCAT": None, "NR": 2, "NCA": 65, "NCB": 3, "DSTM": 0}, [sz(2, 68)])
    D("stack-2+3x65", "c08.c", {"H_STACK": None, "NRA": 2, "NRB": 3, "NC": 65, "DSTM": 0}, [sz(5, 65)])
    D("extractu-5x70", "c08.c", {"H_EXTRACT": None, "NR": 5, "NC": 70, "UPPER": 1, "DSTM": 0}, [sz(5, 5)])
    for (m, l, n, route, cm, k) in [(3, 5, 3, 0, 0, 0), (3, 5, 3, 0, 1, 0), (2, 65, 70, 0, 1, 0), (2, 5, 70, 1, 1, 0), (8, 70, 70, 0, 1, 0),
                                    (16, 3, 54, 4, 0, 2), (16, 3, 54, 4, 1, 2), (16, 3, 54, 5, 1, 2), (16, 9, 70, 6, 1, 0), (15, 9, 70, 6, 1, 0)]:
        sizes = [sz(m, n), sz(n, l), sz(4, n + 64), sz(4, n + 64)]
        d = {"MM": m, "LL": l, "NN": n, "ROUTE": route, "KPAR": k, "CMODE": cm, "KINIT": 8, "CUTOFF": 64 if route >= 6 else 0}
        if m * l > 200: d.update({"A_SYM_R0": 0, "A_SYM_R1": 2, "A_SYM_W0": 0, "A_SYM_W1": 1})
        D("mul%d-%dx%dx%d-c%d" % (route, m, l, n, cm), "c01.c", d, sizes, fallback="kissat")
    for v in (0, 1, 2, 3):
        d = {"VARIANT": v, "NT": 70, "T_SYM_R0": 0, "T_SYM_R1": 0, "T_SYM_W0": 0, "T_SYM_W1": 0}
        if v <= 1: d["NB"] = 70
        else: d["MB"] = 3
        D("trsm%d-n70" % v, "c04.c", d, [sz(70, 70), sz(16, 70), sz(16, 134), sz(3, 70)], backend="z3", fallback="cadical", timeout=2400)
    # eliminations: PASSIVE needs the concrete part field sensitive => thread-safe header config would be faster, but the point here is the cache
    FS = ("--max-field-sensitivity-array-size", "300")
    for alg in (2, 3):
        for full in (0, 1):
            D("ech%d-f%d-6x134" % (alg, full), "c02.c", {"NR": 6, "NC": 134, "ALG": alg, "MODE": 1, "KW": 1, "PROF": 1, "FULLRED": full, "RSYM": 5, "LASTCONC": None, "CONCK": None},
              [sz(12, 134), sz(12, 198), sz(6, 134), sz(2, 134)], cfg="omp", cbmc_flags=FS, timeout=2400)
    D("ple2-6x134", "c03.c", {"NR": 6, "NC": 134, "ALG": 2, "MODE": 1, "KW": 1, "PROF": 1, "RSYM": 5, "LASTCONC": None, "CONCK": None}, [sz(6, 134), sz(2, 134), sz(4, 134)], cfg="omp", cbmc_flags=FS, timeout=2400)
    D("inv-n8", "c05.c", {"H_INVWRAP": None, "NN": 8, "BMODE": 0, "KINIT": 1}, [sz(8, 128), sz(8, 8)], replace_calls={"mzd_echelonize_m4ri": "verif_ech_stub"})
    D("kernel-4x70", "c07.c", {"NR": 4, "NC": 70, "KW": 1, "PROF": 1, "EXPECT_RANK": 4, "RSYM": 3, "LASTCONC": None, "CONCK": None}, [sz(70, 66), sz(4, 70)], cfg="omp", cbmc_flags=FS, timeout=2400)
    # freshness at / around the block-cache threshold (L3 = 256 bytes => threshold 256)
    for s in ["d0d", "e0d", "d0e", "dd01dd", "a0a", "c0c"]:
        qs.append(Q("fresh-%s-defsmall" % s, "c14.c", {"H_HIST": None, "SCRIPT": '"%s"' % s}, cfg="defsmall", group="c10-fresh", checks="safety", leak=True, timeout=900, cbmc_flags=FS16))
    return qs
