"""C04 -- triangular solves, four variants (DESIGN 5/C04)."""
BOUNDS = {
 "quick": "FULL (T incl. junk triangle and B symbolic): four variants, n in {1,2,3,8,16} x width(B) in {1,3,63,64,65,70}; right variants also tall B (65/100 rows x n<=8); Four-Russians regime (65..130 rows) and trtri+mul regime with concrete T / symbolic B, and T symbolic in a 1-word band; recursive regime via tinyL3b (block size 64) at 65..130; cutoff in {0,64,1000}",
 "thorough": "FULL n up to 24, widths to 130; more seeds/patterns (sparse, banded-with-zero-words, identity) for the Russian regime; n in {65,66,70,128,129,130,192,200}",
}
OUTSIDE = "symbolic T beyond 24 rows except band-wise; shapes beyond the grid; recursion depth > 2"
ASSUMPTIONS = ["diagonal of T set to one (unit-diagonal triangular is the stated precondition); everything else in T arbitrary"]

def plan(tier, seed):
    T = tier == "thorough"
    qs = []
    def q(name, d, **kw):
        kw.setdefault("group", "c04-v%d" % d["VARIANT"])
        kw.setdefault("timeout", 900)
        kw.setdefault("fallback", "kissat")
        qs.append(Q(name, "c04.c", d, **kw))
    ns = [1, 2, 3, 8, 16] + ([20, 24] if T else [])
    wbs = [1, 3, 63, 64, 65, 70] + ([128, 130] if T else [])
    for v in (0, 1):
        for n in ns:
            for wb in wbs:
                if not T and n == 16 and wb not in (3, 65): continue
                if not T and n in (2, 3) and wb in (63, 64): continue
                q("left%d-n%d-w%d" % (v, n, wb), {"VARIANT": v, "NT": n, "NB": wb, "KINIT": 1}, timeout=1500 if n >= 16 else 600)
    for v in (2, 3):
        for n in ns:
            for mb in [1, 3, 8] + ([20] if T else []):
                if n * mb > 16 * 8 and not T: continue
                q("right%d-n%d-m%d" % (v, n, mb), {"VARIANT": v, "NT": n, "MB": mb, "KINIT": 1}, timeout=1500 if n >= 16 else 600)
        # tall B: more than 64 rows goes through the giant-step loop + tail of the base case
        for (n, mb) in [(3, 65), (8, 70), (5, 130), (64, 66)]:
            if n == 64:
                q("right%d-n%d-m%d-Bsym" % (v, n, mb), {"VARIANT": v, "NT": n, "MB": mb, "KINIT": 1,
                   "T_SYM_R0": 0, "T_SYM_R1": 0, "T_SYM_W0": 0, "T_SYM_W1": 0, "VSEED": 3 + seed}, backend="z3", fallback="cadical", timeout=1200)
            else:
                q("right%d-n%d-m%d" % (v, n, mb), {"VARIANT": v, "NT": n, "MB": mb, "KINIT": 1}, timeout=1500)
    # ---- Four-Russians regime (64 < n <= blocksize): T concrete (junk in other triangle), B symbolic  => linear => z3
    pats = [0, 1] + ([4, 3] if T else [])
    big = [65, 70, 130] + ([66, 128, 129, 192, 200] if T else [])
    for v in (0, 1):
        for n in big:
            for wb in ((1, 70) if not T else (1, 64, 70, 130)):
                for p in pats:
                    if not T and p == 1 and wb == 1: continue
                    q("russ%d-n%d-w%d-p%d" % (v, n, wb, p), {"VARIANT": v, "NT": n, "NB": wb, "TPAT": p, "VSEED": 5 + seed,
                       "T_SYM_R0": 0, "T_SYM_R1": 0, "T_SYM_W0": 0, "T_SYM_W1": 0}, backend="z3", fallback="cadical", timeout=1500, mem_gb=8)
        q("russ%d-n130-w70-p5" % v, {"VARIANT": v, "NT": 130, "NB": 70, "TPAT": 5, "T_SYM_R0": 0, "T_SYM_R1": 0, "T_SYM_W0": 0, "T_SYM_W1": 0}, backend="z3", fallback="cadical", timeout=1500, mem_gb=8)
        # T symbolic in a band of rows x one word, B concrete
        for n in (65, 70):
            q("russ%d-n%d-w3-Tband" % (v, n), {"VARIANT": v, "NT": n, "NB": 3, "VSEED": 7 + seed,
               "T_SYM_R0": 60 if v == 0 else 0, "T_SYM_R1": n if v == 0 else 8, "T_SYM_W0": 0 if v == 0 else 1, "T_SYM_W1": 1 if v == 0 else 2,
               "B_SYM_R0": 0, "B_SYM_R1": 0, "B_SYM_W0": 0, "B_SYM_W1": 0}, timeout=1500, mem_gb=8)
    # right variants beyond 64 columns: upper-right trtri+mul regime, lower-right recursion
    for v in (2, 3):
        for (n, mb) in [(65, 2), (70, 3), (130, 2)]:
            for p in pats:
                q("rightbig%d-n%d-m%d-p%d" % (v, n, mb, p), {"VARIANT": v, "NT": n, "MB": mb, "TPAT": p, "VSEED": 9 + seed,
                   "T_SYM_R0": 0, "T_SYM_R1": 0, "T_SYM_W0": 0, "T_SYM_W1": 0}, backend="z3", fallback="cadical", timeout=1800, mem_gb=10)
    # ---- recursive regime: block size 64 (tinyL3b) => recursion for 64 < n
    for v in (0, 1, 2, 3):
        for n in ((65, 130) if not T else (65, 70, 128, 130, 192)):
            d = {"VARIANT": v, "NT": n, "VSEED": 11 + seed, "T_SYM_R0": 0, "T_SYM_R1": 0, "T_SYM_W0": 0, "T_SYM_W1": 0, "CUTOFF": 64}
            if v <= 1: d["NB"] = 70
            else: d["MB"] = 3
            q("rec%d-n%d-tinyL3b" % (v, n), d, cfg="tinyL3b", backend="z3", fallback="cadical", timeout=1800, mem_gb=10)
    # cutoffs
    for v in (0, 1, 2, 3):
        for cut in (64, 1000):
            d = {"VARIANT": v, "NT": 8, "CUTOFF": cut, "KINIT": 1}
            if v <= 1: d["NB"] = 65
            else: d["MB"] = 3
            q("cut%d-v%d" % (cut, v), d)
    return qs
