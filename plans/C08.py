"""C08 -- addition and data movement: FULL symbolic contents, concrete layout grid."""
BOUNDS = {
 "quick": "add: widths 1..10 words x ncols%64 in {0,1,63} x 6 aliasing forms, 3 rows, scalar config + SSE2 config at widths 1,2,3,9; transpose: ~55 (m,n) pairs over the size classes {<=8,<=16,<=32,<64,64-blocks+tails} up to 130; copy/copy_row/set_ui/submatrix(all 64 start bit offsets at one shape + ~30 windows)/concat/stack/extract_u/l on small shapes around word boundaries; destination NULL and supplied-dirty",
 "thorough": "transpose: all pairs of {1..9,15,16,17,31,32,33,63,64,65,70,127,128,129} plus {192x200, 513x3, 3x520, 600x70, 70x600, 769x2}; add up to 5 rows / widths to 17; submatrix all 64 offsets x 3 widths; larger concat/stack",
}
OUTSIDE = "shapes beyond the grid (in particular transpose above 769 rows/cols: second level of the recursive split); SSE2 build only at leaf widths"
ASSUMPTIONS = ["supplied destinations are owned matrices with arbitrary valid bits and zero excess bits (the library's representation invariant)"]

def plan(tier, seed):
    T = tier == "thorough"
    qs = []
    # ---- add
    widths = [1, 2, 3, 4, 5, 6, 7, 8, 9, 10] + ([16, 17] if T else [])
    for w in widths:
        for rem in (0, 1, 63):
            nc = (w - 1) * 64 + (rem if rem else 64)
            for al in range(6):
                if not T and w > 3 and w != 9 and al in (4, 5) : continue
                nr = 3 if not T else 5
                qs.append(Q("add-%dx%d-alias%d" % (nr, nc, al), "c08.c", {"H_ADD": None, "NR": nr, "NC": nc, "ALIAS": al}, group="c08-add", backend="cadical", timeout=300))
    for nc in (1, 64, 65, 130, 513, 577):
        for al in (0, 1, 2, 3):
            qs.append(Q("add_-2x%d-alias%d" % (nc, al), "c08.c", {"H_ADD": None, "USE_UNDERSCORE": None, "NR": 2, "NC": nc, "ALIAS": al}, group="c08-add_", timeout=300))
    # SSE2 build: only rows wider than 8 words reach the vector loop of mzd_combine_even (DESIGN F7: heavy)
    SSE_US = {"mzd_combine_even": 14, "mzd_combine_even_in_place": 14, "mzd_row_add_offset": 14}
    for nc in ((577, 640) if not T else (576, 577, 640, 700, 1100)):
        for al in (0, 2, 3):
            if not T and not (nc == 577 and al in (0, 3)): continue
            qs.append(Q("sse-add-2x%d-alias%d" % (nc, al), "c08.c", {"H_ADD": None, "NR": 2, "NC": nc, "ALIAS": al}, cfg="sse", group="c08-add-sse", timeout=1500, mem_gb=20, unwindset=SSE_US))
    # ---- transpose
    base = [1, 2, 3, 7, 8, 9, 15, 16, 17, 31, 32, 33, 63, 64, 65, 70, 127, 128, 129]
    pairs = set()
    if T:
        for m in base:
            for n in base: pairs.add((m, n))
        pairs |= {(192, 200), (513, 3), (3, 520), (600, 70), (70, 600), (769, 2), (2, 769), (130, 257)}
    else:
        sm = [1, 3, 8, 9, 16, 17, 32, 33, 63, 64, 65]
        import random
        rnd = random.Random(1234 + seed)
        for m in sm:
            pairs.add((m, m))
        for (m, n) in [(1, 64), (64, 1), (1, 65), (65, 1), (7, 33), (33, 7), (15, 63), (63, 15), (8, 70), (70, 8), (64, 65), (65, 64), (63, 64), (64, 63),
                       (17, 129), (129, 17), (64, 128), (128, 64), (65, 127), (127, 65), (3, 130), (130, 3), (70, 70), (128, 9), (9, 128), (31, 32), (32, 31), (16, 64), (2, 200), (200, 2)]:
            pairs.add((m, n))
        while len(pairs) < 52:
            pairs.add((rnd.choice(base), rnd.choice(base)))
    for (m, n) in sorted(pairs):
        for dst in (0, 1):
            if dst == 1 and not T and (m + n) % 3 != 0: continue
            big = m * n > 20000
            d = {"H_TRANSPOSE": None, "NR": m, "NC": n, "DSTM": dst}
            if m * n <= 70 * 70 and dst == 0: d["TWICE"] = None
            qs.append(Q("transpose-%dx%d-dst%d" % (m, n, dst), "c08.c", d, group="c08-transpose", backend="cadical", fallback="z3", timeout=1200 if big else 400, mem_gb=12 if big else 6))
    # ---- copy / copy_row / set_ui
    for (r, c) in [(1, 1), (2, 63), (2, 64), (2, 65), (3, 130), (2, 192)] + ([(4, 577), (3, 128)] if T else []):
        for dst in (0, 1, 2):
            qs.append(Q("copy-%dx%d-dst%d" % (r, c, dst), "c08.c", {"H_COPY": None, "NR": r, "NC": c, "DSTM": dst}, group="c08-copy"))
        qs.append(Q("copy-%dx%d-dst2b" % (r, c), "c08.c", {"H_COPY": None, "NR": r, "NC": c, "DSTM": 2, "DR": 0, "DC": 1}, group="c08-copy"))
        qs.append(Q("setui-%dx%d" % (r, c), "c08.c", {"H_SETUI": None, "NR": r, "NC": c}, group="c08-setui"))
        qs.append(Q("setui-%dx%d" % (c if c < 140 else 70, r + 60), "c08.c", {"H_SETUI": None, "NR": c if c < 140 else 70, "NC": r + 60}, group="c08-setui"))
    for (nc, ncb) in [(1, 1), (1, 64), (63, 64), (64, 64), (64, 65), (65, 65), (65, 130), (70, 200), (128, 128), (130, 130)]:
        qs.append(Q("copyrow-%d-%d" % (nc, ncb), "c08.c", {"H_COPYROW": None, "NRA": 2, "NC": nc, "NRB": 3, "NCB": ncb, "IB": 1, "JA": 1}, group="c08-copyrow"))
    # ---- submatrix
    subs = []
    for off in range(64):
        subs.append((3, 200, 1, off, 3, off + 70))       # unaligned/aligned start, width 70 (crosses a word)
        if T:
            subs.append((2, 200, 0, off, 2, off + 64)); subs.append((2, 200, 0, off, 2, off + 1)); subs.append((2, 260, 0, off, 2, off + 130))
    subs += [(2, 64, 0, 0, 2, 64), (2, 65, 0, 64, 2, 65), (3, 130, 1, 64, 2, 130), (3, 130, 0, 63, 3, 127), (3, 130, 0, 63, 3, 128), (3, 130, 0, 1, 3, 129),
             (2, 192, 0, 64, 2, 192), (2, 192, 0, 128, 2, 191), (2, 192, 0, 127, 2, 192), (4, 70, 1, 5, 3, 6), (4, 70, 1, 63, 3, 65), (2, 256, 0, 64, 2, 256),
             (1, 1, 0, 0, 1, 1), (2, 129, 0, 128, 2, 129), (2, 129, 0, 1, 2, 129), (2, 320, 0, 65, 2, 319)]
    for (pr, pc, r0, c0, r1, c1) in subs:
        for dst in (0, 1):
            if dst == 1 and not T and c0 % 7 not in (0, 1): continue
            qs.append(Q("submatrix-%dx%d-%d.%d-%d.%d-dst%d" % (pr, pc, r0, c0, r1, c1, dst), "c08.c",
                        {"H_SUBMATRIX": None, "PR": pr, "PC": pc, "R0": r0, "C0": c0, "R1": r1, "C1": c1, "DSTM": dst}, group="c08-submatrix"))
    # ---- concat / stack
    for (a, b) in [(1, 1), (1, 63), (63, 1), (64, 64), (64, 1), (1, 64), (65, 70), (70, 65), (63, 65), (128, 3), (3, 128), (130, 130)] + ([(200, 190), (5, 300)] if T else []):
        for dst in (0, 1):
            qs.append(Q("concat-%d+%d-dst%d" % (a, b, dst), "c08.c", {"H_CONCAT": None, "NR": 2, "NCA": a, "NCB": b, "DSTM": dst}, group="c08-concat", timeout=400))
    for nc in (1, 63, 64, 65, 128, 130):
        for (ra, rb) in [(1, 1), (2, 3)]:
            for dst in (0, 1):
                qs.append(Q("stack-%d+%dx%d-dst%d" % (ra, rb, nc, dst), "c08.c", {"H_STACK": None, "NRA": ra, "NRB": rb, "NC": nc, "DSTM": dst}, group="c08-stack"))
    # ---- extract
    for (r, c) in [(1, 1), (3, 3), (5, 70), (70, 5), (64, 64), (65, 65), (66, 130), (130, 66)] + ([(128, 128), (129, 129), (100, 200)] if T else []):
        for up in (0, 1):
            for dst in (0, 1):
                qs.append(Q("extract-%s-%dx%d-dst%d" % ("u" if up else "l", r, c, dst), "c08.c", {"H_EXTRACT": None, "NR": r, "NC": c, "UPPER": up, "DSTM": dst}, group="c08-extract", timeout=600))
    return qs
