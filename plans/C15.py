"""C15 -- thread-safe build: no call writes to static storage (sufficient condition for race freedom on
disjoint operands).  CBMC cannot execute threads on this code base (DESIGN F19): the schedule quantifier
is NOT encoded.  Decided instead, per entry point, by dynamic frame-condition checking (goto-instrument
--dfcc): every assignment and every free reachable from the call is proven to target the operands'
storage, memory allocated during the call, or the stack."""
REPLAYABLE = False  # stubs / instrumented program: counterexamples are reported from the solver trace, not re-linked against gcc
BOUNDS = {
 "quick": "thread-safe configuration (ENABLE_MMC=0, ENABLE_MZD_CACHE=0); entry points: add (incl. wide rows), naive products (both routes), transpose (shapes hitting the <=8, <=16, <=32, <64 kernels), four TRSMs, solve (PLUQ, permutations, TRSM, addmul inside); concrete operand contents (the frame condition quantifies over writes, not data)",
 "thorough": "adds 64-block transposes, kernel, inversion + trtri, PLUQ echelonisation, PLUQ (long timeouts; inconclusive if they do not finish)",
}
OUTSIDE = "M4RM / Strassen front end / M4RI elimination entry points (dfcc instrumentation reports an unconfirmed pointer problem there, DESIGN 9.2); interleavings themselves; thread-safety of libc malloc/free (assumed); writes that CBMC's instrumentation cannot see (inline asm); reads of the immutable code books are allowed by construction (the frame condition is about writes)"
ASSUMPTIONS = ["malloc/free are thread-safe", "m4ri_codebook is written only by the library constructor before threads start (no scenario writes it: it is not in the assigns clause)",
               "data-race freedom on disjoint operands follows from: all writes go to operand storage / call-local allocations / stack (proved here within the bounds)"]

def plan(tier, seed):
    T = tier == "thorough"
    qs = []
    def D(sc, dims, tag="", unit=False, pat=0, to=1500):
        ar, ac, br, bc, cr, cc = dims
        d = {"SCEN": sc, "AR": ar, "AC": ac, "BR": br, "BC": bc, "CR": cr, "CC": cc, "APAT0": pat, "VERIF_DFCC": None, "VSEED": 1 + seed}
        if unit: d["UNITDIAG"] = None
        qs.append(Q("frame-s%d%s" % (sc, tag), "c15.c", d, cfg="ts", group="c15-s%d" % sc, dfcc="scen", timeout=to, fallback="kissat", mem_gb=12,
                    cbmc_flags=("--max-field-sensitivity-array-size", "16")))  # keeps symex fast should a static header pool be compiled in (DESIGN F5)
    D(0, (3, 70, 3, 70, 3, 70)); D(0, (2, 577, 2, 577, 2, 577), "-wide")
    D(1, (3, 5, 5, 3, 3, 3)); D(1, (2, 5, 5, 70, 2, 70), "-va")
    for (m, n) in [(5, 70), (7, 8), (12, 15), (20, 27), (40, 45)]:
        D(4, (m, n, 1, 1, n, m), "-%dx%d" % (m, n))
    D(8, (5, 5, 5, 70, 1, 1), unit=True); D(9, (5, 5, 1, 1, 3, 5), unit=True)
    D(10, (3, 5, 5, 2, 1, 1))   # solve: PLUQ (PLE Four-Russians base case, tables), permutations, TRSM, addmul
    if T:
        # measured: no verdict in 240 s (quick budget) - larger transposes, kernel, inversion
        for (m, n) in [(64, 64), (70, 66)]:
            D(4, (m, n, 1, 1, n, m), "-%dx%d" % (m, n), to=3000)
        D(11, (3, 70, 1, 1, 1, 1), to=3000); D(12, (5, 5, 1, 1, 1, 1), unit=True, pat=4, to=3000)
        D(6, (6, 70, 1, 1, 1, 1), to=3000); D(7, (6, 70, 1, 1, 1, 1), to=3000)
    # NOT run (see DESIGN 9.2): scenarios 2, 3, 5, 13 (M4RM product, Strassen front end, M4RI elimination,
    # permutations+copy). goto-instrument --dfcc reports "ptr NULL or writable up to size" for a write in
    # mzd_make_table through a pointer that the functional checks (C01/C02, all pointer checks on) show
    # to be in bounds; the instrumented program is not trusted for these scenarios and they are not claimed.
    return qs
