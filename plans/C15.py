"""C15 -- thread-safe build: no call writes to static storage (sufficient condition for race freedom on
disjoint operands).  CBMC cannot execute threads on this code base (DESIGN F19): the schedule quantifier
is NOT encoded.  Decided instead, per entry point, by dynamic frame-condition checking (goto-instrument
--dfcc): every assignment and every free reachable from the call is proven to target the operands'
storage, memory allocated during the call, or the stack."""
REPLAYABLE = False  # stubs / instrumented program: counterexamples are reported from the solver trace, not re-linked against gcc
BOUNDS = {
 "quick": "thread-safe configuration (ENABLE_MMC=0, ENABLE_MZD_CACHE=0); entry points: add, naive / M4RM / Strassen-front-end products, transpose (shapes hitting the <=8, <=16, <=32, <64 and 64-block kernels), M4RI / PLUQ echelonisation, PLUQ, four TRSMs, solve, kernel, inversion + trtri, init/window/free + permutations + copy; concrete operand contents (the frame condition quantifies over writes, not data)",
 "thorough": "same entry points at larger shapes (Four-Russians TRSM, tables with k up to 5)",
}
OUTSIDE = "interleavings themselves; thread-safety of libc malloc/free (assumed); writes that CBMC's instrumentation cannot see (inline asm); reads of the immutable code books are allowed by construction (the frame condition is about writes)"
ASSUMPTIONS = ["malloc/free are thread-safe", "m4ri_codebook is written only by the library constructor before threads start (no scenario writes it: it is not in the assigns clause)",
               "data-race freedom on disjoint operands follows from: all writes go to operand storage / call-local allocations / stack (proved here within the bounds)"]

def plan(tier, seed):
    T = tier == "thorough"
    qs = []
    def D(sc, dims, tag="", unit=False, pat=0, to=1500):
        ar, ac, br, bc, cr, cc = dims
        d = {"SCEN": sc, "AR": ar, "AC": ac, "BR": br, "BC": bc, "CR": cr, "CC": cc, "APAT0": pat, "VERIF_DFCC": None, "VSEED": 1 + seed}
        if unit: d["UNITDIAG"] = None
        qs.append(Q("frame-s%d%s" % (sc, tag), "c15.c", d, cfg="ts", group="c15-s%d" % sc, dfcc="scen", timeout=to, fallback="kissat", mem_gb=12))
    D(0, (3, 70, 3, 70, 3, 70)); D(0, (2, 577, 2, 577, 2, 577), "-wide")
    D(1, (3, 5, 5, 3, 3, 3)); D(1, (2, 5, 5, 70, 2, 70), "-va")
    D(2, (16, 9, 9, 54, 16, 54), to=2400)
    D(3, (16, 9, 9, 54, 16, 54), to=2400)
    for (m, n) in [(5, 70), (7, 8), (12, 15), (20, 27), (40, 45), (64, 64), (70, 66)]:
        D(4, (m, n, 1, 1, n, m), "-%dx%d" % (m, n))
    D(5, (6, 70, 1, 1, 1, 1)); D(6, (6, 70, 1, 1, 1, 1)); D(7, (6, 70, 1, 1, 1, 1))
    D(8, (5, 5, 5, 70, 1, 1), unit=True); D(9, (5, 5, 1, 1, 3, 5), unit=True)
    D(10, (3, 5, 5, 2, 1, 1)); D(11, (3, 70, 1, 1, 1, 1))
    D(12, (5, 5, 1, 1, 1, 1), unit=True, pat=4)
    D(13, (4, 70, 1, 1, 4, 70))
    if T:
        D(8, (70, 70, 70, 70, 1, 1), "-russian", unit=True, to=3000)
        D(5, (12, 134, 1, 1, 1, 1), "-12x134", to=3000)
    return qs
