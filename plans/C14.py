"""C14 -- allocation history (DESIGN 5/C14). Configuration `def` (block cache and header pool on)."""
REPLAYABLE = False  # stubs / instrumented program: counterexamples are reported from the solver trace, not re-linked against gcc
BOUNDS = {
 "quick": "header pool: one mzd_t_malloc / one mzd_t_free step from EVERY valid pool state with 1..3 blocks (all 2^64 `used` masks per block symbolic, current_cache any member; block limit scaled to 3 by the hook so the fallback path is reachable); block cache: one m4ri_mmc_malloc / m4ri_mmc_free step from every cache state over 3 slots and sizes {0,64,128,192}(+256), then cleanup + leak check; scripted histories (<= 9 ops over init of equal/different/zero-area sizes, window, free in any scripted order; 2 cache slots) with symbolic canaries and nondeterministic recycled memory, leak check after m4ri_mmc_cleanup",
 "thorough": "more scripts (all permutations of free order for 3 matrices, eviction rotation), 4-slot cache",
}
OUTSIDE = "the real capacities 16/16 (the code is parametric in them; verified at 3/3 through hook M4RI_VERIF_*); histories longer than the scripts (covered by the one-step-from-any-state arguments under the stated representation invariant); the static eviction index j of m4ri_mmc_free starts at 0 in the one-step query (rotation covered by scripts)"
ASSUMPTIONS = ["pool invariant: blocks doubly linked from the static head, non-head blocks non-empty, current_cache a member",
               "hook in mzd_t_free: a slot of another allocation is never inside this block (flat address space) -- CBMC leaves cross-object pointer differences unconstrained",
               "libc malloc/free are correct; CBMC's allocator returns fresh objects with nondeterministic contents"]

def plan(tier, seed):
    T = tier == "thorough"
    qs = []
    for n in (1, 2, 3):
        qs.append(Q("pool-malloc-nblk%d" % n, "c14.c", {"H_POOL": None, "STEP": 0, "NBLK": n, "M4RI_VERIF_MZD_T_CACHE_MAX": 3}, cfg="def", exclude=("mzd.c",), group="c14-pool",
                    checks="safety", timeout=900, fallback="kissat", mem_gb=8))
        for fb in range(n):
            qs.append(Q("pool-free-nblk%d-b%d" % (n, fb), "c14.c", {"H_POOL": None, "STEP": 1, "NBLK": n, "FB": fb, "M4RI_VERIF_MZD_T_CACHE_MAX": 3}, cfg="def", exclude=("mzd.c",), group="c14-pool",
                        checks="safety", timeout=900, fallback="kissat", mem_gb=8))
    nb = 3 if not T else 4
    for step in (0, 1):
        qs.append(Q("mmc-step%d-nb%d" % (step, nb), "c14.c", {"H_MMC": None, "STEP": step, "M4RI_VERIF_MMC_NBLOCKS": nb, "_LIBDEFS": ("M4RI_VERIF_MMC_NBLOCKS=%d" % nb,)},
                    cfg="def", group="c14-mmc", checks="safety", leak=True, timeout=1200, fallback="kissat", mem_gb=8))
    scripts = ["a0a", "a0b", "ab01ab", "ab10ba", "abc012abc", "abc210cba", "aw10", "az10a", "cw10c", "ab0a1b", "abc1a0b2", "aab012aab", "z0z", "a0c1a"]
    if T:
        scripts += ["abc021abc", "abc102abc", "abc120abc", "abc201abc", "aaaa0123aaaa", "acac0123caca", "aw1aw30 2".replace(" ", ""), "abw2 01ab".replace(" ", "")]
    for s in scripts:
        qs.append(Q("hist-%s" % s, "c14.c", {"H_HIST": None, "SCRIPT": '"%s"' % s, "M4RI_VERIF_MMC_NBLOCKS": 2, "_LIBDEFS": ("M4RI_VERIF_MMC_NBLOCKS=2",)},
                    cfg="def", group="c14-hist", checks="safety", leak=True, timeout=900, fallback="kissat", mem_gb=8,
                    cbmc_flags=("--max-field-sensitivity-array-size", "16")))
    for s in ["d0d", "e0d", "dd01dd", "d0e1d"]:   # 256-byte blocks == block-cache threshold when L3 = 256 bytes
        qs.append(Q("hist-%s-defsmall" % s, "c14.c", {"H_HIST": None, "SCRIPT": '"%s"' % s}, cfg="defsmall", group="c14-hist-defsmall", checks="safety", leak=True, timeout=900,
                    cbmc_flags=("--max-field-sensitivity-array-size", "16")))
    return qs
