"""C13 -- row/column operations and permutation application (LAPACK swap semantics)."""
BOUNDS = {
 "quick": "row_swap/col_swap(_in_rows)/row_add(_offset)/row_clear_offset/read|xor|clear_bits: symbolic indices, offsets, lengths and row ranges on 5x{1,63,64,65,130,200}; combine family widths 1..10 words, start blocks 0/1/2; left permutations: fully symbolic P (length <= 6, shorter than nrows too) on 6x{1,64,70,130}; right permutations: fully symbolic P on 3x{1..8,12} and symbolic 5-position windows sliding over 70/130-column matrices (incl. positions 58..66 crossing the word boundary), capped (start_row) and triangular variants; P*I == I*P for n<=6",
 "thorough": "adds wider windows (7 positions), more window positions, 3x200, tinyL1 configuration (strip height 1..2 rows), SSE2 leaf kernels for row_add_offset and the combine family",
}
OUTSIDE = "arbitrary long permutations on wide matrices (only windows of <= 7 non-identity positions there); mzd_apply_p_right_even_capped with start_col > 0 (no caller, semantics undocumented); mzd_and_bits (no caller; shifts its argument, undocumented)"
ASSUMPTIONS = ["permutations are LAPACK style with i <= P[i] < length (what the property states)",
               "mzd_xor_bits: value has only its n low bits set (documented: 'n bits from values')"]

US = {"mzd_col_swap_in_rows": 8, "mzd_row_clear_offset": 6, "mzd_row_add_offset": 6, "mzd_apply_p_right_trans_tri": 80}

def plan(tier, seed):
    T = tier == "thorough"
    qs = _plan(tier, seed)
    for q in qs:
        if not q.unwindset:
            q.unwindset = dict(US)
    return qs

def _plan(tier, seed):
    T = tier == "thorough"
    qs = []
    shapes = [(5, 1), (5, 63), (5, 64), (5, 65), (5, 130), (4, 200)]
    for (nr, nc) in shapes:
        d = {"NR": nr, "NC": nc}
        t = "%dx%d" % (nr, nc)
        qs.append(Q("rowswap-" + t, "c13.c", dict(d, H_ROWSWAP=None), group="c13-rowswap", checks="safety"))
        if T or nc in (1, 64, 65, 130):
            dd = dict(d) if (T or nc <= 64) else dict(d, NR=3)
            tt = "%dx%d" % (dd["NR"], nc)
            qs.append(Q("colswap-" + tt, "c13.c", dict(dd, H_COLSWAP=None), group="c13-colswap", checks="safety", timeout=1500, fallback="kissat"))
            qs.append(Q("colswaprows-" + tt, "c13.c", dict(dd, H_COLSWAP=None, INROWS=None), group="c13-colswap", checks="safety", timeout=1500, fallback="kissat"))
        qs.append(Q("rowadd-" + t, "c13.c", dict(d, H_ROWADD=None), group="c13-rowadd", checks="safety", timeout=600))
        qs.append(Q("rowadd0-" + t, "c13.c", dict(d, H_ROWADD=None, NOOFFSET=None), group="c13-rowadd", checks="safety"))
        qs.append(Q("rowclear-" + t, "c13.c", dict(d, H_ROWCLEAR=None), group="c13-rowclear", checks="safety", timeout=600))
        for op in (0, 1, 2, 3):
            qs.append(Q("bits%d-%s" % (op, t), "c13.c", dict(d, H_BITS=None, OP=op, NR=2), group="c13-bits", checks="safety", timeout=900, fallback="kissat"))
    for w in [1, 2, 3, 4, 5, 8, 9, 10] + ([16, 17] if T else []):
        for rem in (0, 1):
            nc = (w - 1) * 64 + (64 if rem == 0 else 63)
            for sb in (0, 1, 2):
                if sb >= w: continue
                for mode in (0, 1, 2, 3):
                    if not T and sb == 2 and mode in (2, 3): continue
                    qs.append(Q("combine%d-3x%d-sb%d" % (mode, nc, sb), "c13.c", {"H_COMBINE": None, "NR": 3, "NC": nc, "SB": sb, "MODE": mode}, group="c13-combine", checks="safety", timeout=600))
    if T:
        for nc in (64, 190, 200, 576, 640):
            for mode in (0, 1):
                for sb in (0, 1):
                    qs.append(Q("sse-combine%d-2x%d-sb%d" % (mode, nc, sb), "c13.c", {"H_COMBINE": None, "NR": 2, "NC": nc, "SB": sb, "MODE": mode}, cfg="sse", group="c13-combine-sse", timeout=1500, mem_gb=20))
            qs.append(Q("sse-rowadd-3x%d" % nc, "c13.c", {"H_ROWADD": None, "NR": 3, "NC": nc}, cfg="sse", group="c13-rowadd-sse", timeout=1500, mem_gb=20))
    # left permutations
    for (nr, nc, pl) in [(6, 1, 6), (6, 64, 6), (6, 70, 6), (6, 130, 6), (6, 70, 4), (3, 65, 3), (1, 5, 1)]:
        for tr in (0, 1):
            qs.append(Q("pleft%d-%dx%d-p%d" % (tr, nr, nc, pl), "c13.c", {"H_PLEFT": None, "NR": nr, "NC": nc, "PL": pl, "TRANS": tr}, group="c13-pleft", timeout=900, fallback="kissat"))
    # right permutations: small fully symbolic
    for nc in [1, 2, 3, 4, 5, 6, 8] + ([10, 12] if T else []):
        for tr in (0, 1):
            qs.append(Q("pright%d-3x%d-full" % (tr, nc), "c13.c", {"H_PRIGHT": None, "NR": 3, "NC": nc, "PL": nc, "TRANS": tr}, group="c13-pright", timeout=1200, fallback="kissat"))
    qs.append(Q("pright1-3x8-p5", "c13.c", {"H_PRIGHT": None, "NR": 3, "NC": 8, "PL": 5, "TRANS": 1}, group="c13-pright", timeout=900))
    qs.append(Q("pright0-3x8-p5", "c13.c", {"H_PRIGHT": None, "NR": 3, "NC": 8, "PL": 5, "TRANS": 0}, group="c13-pright", timeout=900))
    # windows of non-identity positions sliding over wide matrices
    wl = 5 if not T else 7
    pos70 = [0, 29, 58, 60, 62, 64] + ([59, 61, 63, 33] if T else [])
    for lo in pos70:
        hi = min(lo + wl, 70)
        for tr in (0, 1):
            qs.append(Q("pright%d-3x70-w%d" % (tr, lo), "c13.c", {"H_PRIGHT": None, "NR": 3, "NC": 70, "PL": 70, "TRANS": tr, "WLO": lo, "WHI": hi}, group="c13-pright-win", timeout=1500, fallback="kissat"))
    for lo in [62, 125] + ([0, 64, 100, 126] if T else []):
        hi = min(lo + wl, 130)
        for tr in (0, 1):
            qs.append(Q("pright%d-2x130-w%d" % (tr, lo), "c13.c", {"H_PRIGHT": None, "NR": 2, "NC": 130, "PL": 130, "TRANS": tr, "WLO": lo, "WHI": hi}, group="c13-pright-win", timeout=1500, fallback="kissat"))
    # capped (rows >= SROW)
    for tr in (0, 1):
        qs.append(Q("prightcap%d-4x6" % tr, "c13.c", {"H_PRIGHT": None, "NR": 4, "NC": 6, "PL": 6, "TRANS": tr, "SROW": 2}, group="c13-pright-cap", timeout=900))
        qs.append(Q("prightcap%d-4x70-w60" % tr, "c13.c", {"H_PRIGHT": None, "NR": 4, "NC": 70, "PL": 70, "TRANS": tr, "SROW": 1, "WLO": 60, "WHI": 65}, group="c13-pright-cap", timeout=1500))
    # strip height from L1: tiny L1 => step_size 1..2
    for tr in (0, 1):
        qs.append(Q("pright%d-5x6-tinyL1" % tr, "c13.c", {"H_PRIGHT": None, "NR": 5, "NC": 6, "PL": 6, "TRANS": tr}, cfg="tinyL1", group="c13-pright", timeout=1200))
        qs.append(Q("pright%d-5x70-w62-tinyL1" % tr, "c13.c", {"H_PRIGHT": None, "NR": 5, "NC": 70, "PL": 70, "TRANS": tr, "WLO": 62, "WHI": 66}, cfg="tinyL1", group="c13-pright-win", timeout=1500))
    # triangular
    for (nr, nc) in [(3, 3), (5, 5), (6, 4), (3, 6)]:
        qs.append(Q("ptri-%dx%d" % (nr, nc), "c13.c", {"H_PTRI": None, "NR": nr, "NC": nc, "PL": nc}, group="c13-ptri", timeout=900))
    for lo in (0, 62):
        qs.append(Q("ptri-66x70-w%d" % lo if False else "ptri-4x70-w%d" % lo, "c13.c", {"H_PTRI": None, "NR": 4, "NC": 70, "PL": 70, "WLO": lo, "WHI": lo + 4}, group="c13-ptri", timeout=1500, mem_gb=14))
    qs.append(Q("ptri-5x6-tinyL1", "c13.c", {"H_PTRI": None, "NR": 5, "NC": 6, "PL": 6}, cfg="tinyL1", group="c13-ptri", timeout=900))
    # consistency left/right
    for n in (3, 5, 6):
        for tr in (0, 1):
            qs.append(Q("pconsist%d-n%d" % (tr, n), "c13.c", {"H_PCONSIST": None, "NC": n, "NR": n, "TRANS": tr}, group="c13-pconsist", timeout=900))
    return qs
