"""C01 -- multiplication routes vs. the textbook GF(2) product (see DESIGN 5/C01)."""
BOUNDS = {
 "quick": "naive/va routes FULL: m in {1,2,3}, l in {1,5,63,64,65,70}, n in {1,3,53,54,64,70}; M4RM FULL (all bits of A and B symbolic) 16 x l x 54 for l in {1,2,3,5,16,17}, k in {1,2}; M4RM REGION (A symbolic, B concrete / B band symbolic, A concrete) up to 32x70x130 with k in {0,1,2,3,4,5}; mzd_mul/mzd_addmul wrappers at base-case sizes; squaring dispatch A==B; tiny-L3 configuration (block size 16: two giant steps)",
 "thorough": "adds naive m<=8,l<=130; M4RM FULL l<=24, k in {2,3}, n in {54,64,65,70}, m in {16,17}; more REGION shapes and seeds; k in 0..10",
}
OUTSIDE = "fully symbolic products with inner dimension > 24 (only band-wise); Strassen-Winograd recursion with symbolic matrix bits (shape-level and schedule-level checks only, see strassen queries); shapes beyond the grid"
ASSUMPTIONS = ["concrete parts of REGION/PASSIVE queries come from a fixed LCG (seed recorded in the layout); the claim of such a query is for all values of the symbolic part only"]

def plan(tier, seed):
    T = tier == "thorough"
    qs = []
    def q(name, d, **kw):
        kw.setdefault("group", "c01-" + name.split("-")[0])
        kw.setdefault("backend", "cadical")
        kw.setdefault("timeout", 600)
        qs.append(Q(name, "c01.c", d, **kw))
    # ---- naive routes (FULL)
    ms = [1, 2, 3] + ([8] if T else [])
    ls = [1, 5, 63, 64, 65, 70] + ([128, 130] if T else [])
    ns = [1, 3, 53, 54, 64, 70]
    for m in ms:
        for l in ls:
            for n in ns:
                if not T and (m, l, n) not in [(1,1,1),(3,5,3),(2,63,53),(2,64,54),(3,65,54),(2,70,70),(1,64,64),(3,64,1),(2,65,53),(3,70,64),(2,5,70),(1,63,3),(3,1,54),(2,1,53)]: continue
                if T and (m * l * n > 3 * 130 * 70): continue
                for route in (0, 1):
                    for cm in ((0, 1) if route == 0 else (1,)):
                        d = {"MM": m, "LL": l, "NN": n, "ROUTE": route, "CMODE": cm, "KINIT": 1}
                        if l >= 63 and n < 54 and not T:
                            # AND-parity networks of width >= 63 defeat every back end (measured: > 900 s); one operand concrete => linear
                            q("naive%d-%dx%dx%d-c%d-Bsym" % (route, m, l, n, cm), dict(d, A_SYM_R0=0, A_SYM_R1=0, A_SYM_W0=0, A_SYM_W1=0, VSEED=3 + seed), backend="z3", fallback="cadical", timeout=900)
                            q("naive%d-%dx%dx%d-c%d-Asym" % (route, m, l, n, cm), dict(d, B_SYM_R0=0, B_SYM_R1=0, B_SYM_W0=0, B_SYM_W1=0, VSEED=4 + seed), backend="z3", fallback="cadical", timeout=900)
                        else:
                            q("naive%d-%dx%dx%d-c%d" % (route, m, l, n, cm), d,
                              backend="z3" if n < 54 else "cadical", fallback="cadical" if n < 54 else "z3", timeout=1500 if T else 900)
    for (m, l, n) in [(2, 3, 70), (3, 65, 54), (1, 70, 130)]:
        for route in (2, 3):
            q("va%d-%dx%dx%d" % (route, m, l, n), {"MM": m, "LL": l, "NN": n, "ROUTE": route, "CMODE": 1, "KINIT": 1})
    # ---- M4RM FULL
    full = [(16, 1, 54, 2), (16, 2, 54, 2), (16, 3, 54, 2), (16, 5, 54, 2), (16, 16, 54, 2), (16, 17, 54, 2), (16, 3, 54, 1)]
    if T:
        full += [(16, 20, 54, 2), (16, 24, 54, 3), (17, 17, 65, 2), (16, 9, 70, 3), (17, 5, 64, 2), (16, 24, 54, 2)]
    for (m, l, n, k) in full:
        for route in (4, 5):
            if not T and route == 5 and l not in (3, 17): continue
            q("m4rmfull%d-%dx%dx%d-k%d" % (route, m, l, n, k), {"MM": m, "LL": l, "NN": n, "ROUTE": route, "KPAR": k, "CMODE": 1, "KINIT": max(k, 2)},
              timeout=1500, fallback="kissat", mem_gb=8)
    # ---- M4RM REGION: A fully symbolic, B concrete (linear in A? no: selects table rows) ; B band symbolic, A concrete
    reg = []
    for k in ([0, 1, 2, 3, 4] if not T else [0, 1, 2, 3, 4, 5, 6, 7, 8, 9, 10]):
        reg.append((16, 70, 54, k)); reg.append((17, 33, 70, k))
    reg += [(32, 70, 130, 0), (33, 17, 128, 2)] + ([(20, 130, 65, 3), (16, 64, 64, 8), (16, 65, 64, 8)] if T else [(16, 65, 64, 5)])
    for (m, l, n, k) in reg:
        kin = 8
        # B symbolic (whole words of all rows in one 1-word band), A concrete
        for route in (4, 5):
            if not T and route == 5 and k not in (0, 3): continue
            q("m4rmB%d-%dx%dx%d-k%d" % (route, m, l, n, k), {"MM": m, "LL": l, "NN": n, "ROUTE": route, "KPAR": k, "CMODE": 1, "KINIT": kin,
               "A_SYM_R0": 0, "A_SYM_R1": 0, "A_SYM_W0": 0, "A_SYM_W1": 0, "VSEED": 1 + seed}, backend="z3", fallback="cadical", timeout=1200 if k < 8 else 2400, mem_gb=16 if k < 8 else 28)
        # A symbolic in 2 rows, B concrete
        q("m4rmA4-%dx%dx%d-k%d" % (m, l, n, k), {"MM": m, "LL": l, "NN": n, "ROUTE": 4, "KPAR": k, "CMODE": 0, "KINIT": kin,
           "A_SYM_R0": m - 2, "A_SYM_R1": m, "A_SYM_W0": 0, "A_SYM_W1": (l + 63) // 64,
           "B_SYM_R0": 0, "B_SYM_R1": 0, "B_SYM_W0": 0, "B_SYM_W1": 0, "VSEED": 2 + seed}, timeout=1200 if k < 8 else 2400, mem_gb=16 if k < 8 else 28)
    # sparse / structured concrete parts
    for (ap, bp) in [(1, 0), (4, 0), (2, 0), (3, 3)]:
        q("m4rmBpat%d%d-16x70x54" % (ap, bp), {"MM": 16, "LL": 70, "NN": 54, "ROUTE": 4, "KPAR": 0, "CMODE": 1, "KINIT": 8, "APAT": ap, "BPAT": bp,
           "A_SYM_R0": 0, "A_SYM_R1": 0, "A_SYM_W0": 0, "A_SYM_W1": 0}, backend="z3", fallback="cadical")
    # ---- tiny L3: MUL_BLOCKSIZE 16 -> two giant steps at 32 rows, naive blocked loop at >=16 rows
    q("m4rmB4-tinyL3-33x33x70-k2", {"MM": 33, "LL": 33, "NN": 70, "ROUTE": 4, "KPAR": 2, "CMODE": 1, "KINIT": 8,
       "A_SYM_R0": 0, "A_SYM_R1": 0, "A_SYM_W0": 0, "A_SYM_W1": 0}, cfg="tinyL3", backend="z3", fallback="cadical", timeout=1200)
    q("m4rmB5-tinyL3-33x33x70-k0", {"MM": 33, "LL": 33, "NN": 70, "ROUTE": 5, "KPAR": 0, "CMODE": 1, "KINIT": 8,
       "A_SYM_R0": 0, "A_SYM_R1": 0, "A_SYM_W0": 0, "A_SYM_W1": 0}, cfg="tinyL3", backend="z3", fallback="cadical", timeout=1200)
    for route in (0, 1):
        q("naive%d-tinyL3-35x5x20" % route, {"MM": 35, "LL": 5, "NN": 20, "ROUTE": route, "CMODE": 1, "KINIT": 1,
           "A_SYM_R0": 0, "A_SYM_R1": 0, "A_SYM_W0": 0, "A_SYM_W1": 0}, cfg="tinyL3", backend="z3", fallback="cadical", timeout=1200)
        q("naive%d-tinyL3-18x3x5-full" % route, {"MM": 18, "LL": 3, "NN": 5, "ROUTE": route, "CMODE": 1, "KINIT": 1}, cfg="tinyL3", backend="z3", fallback="cadical", timeout=1200)
    # ---- public Strassen wrappers at base-case sizes (closer() true): routes to M4RM / naive; squaring dispatch
    for (m, l, n, cut) in [(3, 5, 3, 0), (16, 3, 54, 64), (2, 65, 70, 64), (16, 5, 54, 1), (3, 3, 3, 100000)]:
        for route in (6, 7):
            q("mul%d-%dx%dx%d-cut%d" % (route, m, l, n, cut), {"MM": m, "LL": l, "NN": n, "ROUTE": route, "CUTOFF": cut, "CMODE": 1, "KINIT": 8}, timeout=1500, fallback="kissat", mem_gb=8)
    for n in (3, 5):
        for route in (6, 7):
            q("sqr%d-%dx%d" % (route, n, n), {"MM": n, "LL": n, "NN": n, "ROUTE": route, "SQUARE": None, "CMODE": 1, "KINIT": 8}, timeout=1200)
    # ---- DJB: compile (data dependent heap order) + apply on a zeroed target
    for (m, n, nv, pat) in [(8, 8, 70, 0), (16, 16, 130, 0), (12, 70, 65, 1), (5, 5, 64, 3), (6, 6, 70, 4)]:
        qs.append(Q("djb-A%dx%d-V%d-p%d" % (m, n, nv, pat), "c01_djb.c", {"MA": m, "NA": n, "NV": nv, "AMODE": 1, "APAT": pat, "VSEED": 1 + seed}, group="c01-djb", backend="z3", fallback="cadical", timeout=900))
    for (m, n) in [(2, 2), (3, 3)] + ([(3, 4), (4, 4)] if T else []):
        qs.append(Q("djb-full-%dx%d" % (m, n), "c01_djb.c", {"MA": m, "NA": n, "NV": 70, "AMODE": 0}, group="c01-djb", timeout=1500, fallback="kissat",
                    unwindset={"djb_compile": m * n + n + 2, "heap_push": 4, "heap_pop": 4, "mzd_compare_rows_revlex": 3}))
    # ---- Strassen-Winograd routes: modular index-level check, symbolic dimensions and cutoff (DESIGN F22)
    REN = {"_mzd_mul_even": "L1__mzd_mul_even", "_mzd_sqr_even": "L1__mzd_sqr_even", "_mzd_addmul_even": "L1__mzd_addmul_even", "_mzd_addsqr_even": "L1__mzd_addsqr_even",
           "mzd_mul": "L1_mzd_mul", "mzd_addmul": "L1_mzd_addmul", "_mzd_addmul": "L1__mzd_addmul"}
    RC = {"L1__mzd_mul_even": "stub_rec_mul", "L1__mzd_sqr_even": "stub_rec_sqr", "L1__mzd_addmul_even": "stub_rec_mul", "L1__mzd_addsqr_even": "stub_rec_sqr",
          "L1_mzd_mul": "stub_mzd_mul", "mzd_init_window": "stub_init_window", "mzd_init": "stub_init", "mzd_free": "stub_free", "mzd_copy": "stub_copy",
          "_mzd_add": "stub_add", "_mzd_mul_m4rm": "stub_mul_m4rm", "mzd_addmul_m4rm": "stub_addmul_m4rm"}
    for fn in range(6):
        qs.append(Q("strassen-shape-f%d" % fn, "c01_shape.c", {"FUNC": fn, "MAXDIM": 1100}, group="c01-strassen-shape", renamed_tus={"strassen.c": REN}, replace_in_renamed=RC, stub_source="c01_shape_stubs.c",
                    checks="safety", timeout=1500, fallback="kissat", mem_gb=8, unwindset={"L1_.*": 12, "empty_split.*": 12}))
    return qs
