"""C18 -- file I/O (DESIGN 5/C18): real io.c against nondeterministic libpng / stdio stubs."""
REPLAYABLE = False  # stubs / instrumented program: counterexamples are reported from the solver trace, not re-linked against gcc
BOUNDS = {
 "quick": "PNG round trip: A symbolic, ncols 1..72 (every residue class mod 8 and mod 64) and {127,128,129,130}, nrows in {1,2}, compression level symbolic; malformed PNG: every valid (bit depth, colour type) combination (15, enumerated) x interlace flag, each early failure (short read, bad signature, struct creation failure) as its own query, arbitrary row bytes of the contract length, create/read failures, for widths {1,9,70}; JCF: arbitrary p / nonzero fields and <= 4 arbitrary index tokens for 1x1, 2x3, 3x70; mzd_from_str: arbitrary characters 2x3, 3x70, 1x64",
 "thorough": "round trip up to 3 rows and all widths 1..130; JCF 6 tokens; bad header return values",
}
OUTSIDE = "real file bytes, zlib / libpng internals (their documented contracts are the stubs), truncated-file behaviour inside libpng (modelled as 'png_read_info may end the process')"
ASSUMPTIONS = ["libpng contract: png_read_row writes exactly ceil(width*bit_depth*channels/8) bytes; png_write_row reads as many; packswap reverses bit order per byte, invert_mono complements (1-bit gray); fopen succeeds unless FOPEN_MAY_FAIL",
               "localtime returns years 1970..9999; sprintf/printf have empty bodies"]

def plan(tier, seed):
    T = tier == "thorough"
    qs = []
    widths = list(range(1, 73)) + [127, 128, 129, 130]
    if T: widths = list(range(1, 131))
    for w in widths:
        for h in ((1, 2) if not T else (1, 3)):
            if not T and h == 2 and w not in (7, 8, 9, 64, 65, 130): continue
            qs.append(Q("pngrt-%dx%d" % (h, w), "c18.c", {"H_PNGRT": None, "PH": h, "PW": w}, group="c18-pngrt", checks="safety", timeout=900, fallback="z3"))
    combos = [(d, 0) for d in (1, 2, 4, 8, 16)] + [(d, 3) for d in (1, 2, 4, 8)] + [(d, c) for c in (2, 4, 6) for d in (8, 16)]
    for w in ((1, 9, 70) if not T else (1, 8, 9, 64, 70)):
        for (d, c) in combos:
            qs.append(Q("pngbad-2x%d-d%d-c%d" % (w, d, c), "c18.c", {"H_PNGBAD": None, "PH": 2, "PW": w, "PDEPTH": d, "PCOLOR": c, "PINTERLACE": 0}, group="c18-pngbad", checks="safety", timeout=600,
                        unwindset={"mzd_from_png": 12}))  # after an out-of-bounds row write CBMC's memory is arbitrary: keep symex finite so the write itself is reported
    for f in ("FAIL_FREAD", "FAIL_SIG", "FAIL_CREATE", "FAIL_INFO"):
        qs.append(Q("pngbad-%s" % f.lower(), "c18.c", {"H_PNGBAD": None, "PH": 2, "PW": 9, "PDEPTH": 1, "PCOLOR": 0, "PINTERLACE": 0, f: None}, group="c18-pngbad", checks="safety", timeout=600, unwindset={"mzd_from_png": 12}))
    qs.append(Q("pngbad-interlaced", "c18.c", {"H_PNGBAD": None, "PH": 2, "PW": 9, "PDEPTH": 1, "PCOLOR": 0, "PINTERLACE": 1}, group="c18-pngbad", checks="safety", timeout=600, unwindset={"mzd_from_png": 12}))
    for (h, w) in [(1, 1), (2, 3), (3, 70)]:
        qs.append(Q("jcf-%dx%d" % (h, w), "c18.c", {"H_JCF": None, "PH": h, "PW": w, "NTOK": 4 if not T else 6}, group="c18-jcf", checks="safety", timeout=900, fallback="kissat",
                    unwindset={"mzd_from_jcf": 8}))
    qs.append(Q("jcf-badheader-2x3", "c18.c", {"H_JCF": None, "PH": 2, "PW": 3, "NTOK": 2, "BADHEADER": None}, group="c18-jcf", checks="safety", timeout=900, unwindset={"mzd_from_jcf": 6}))
    for (h, w) in [(2, 3), (3, 70), (1, 64)]:
        qs.append(Q("str-%dx%d" % (h, w), "c18.c", {"H_STR": None, "PH": h, "PW": w}, group="c18-str", checks="safety", timeout=900))
    return qs
