"""C12 -- results do not depend on build configuration or tuning parameters (DESIGN 5/C12).
Every functional harness is parameterised by the configuration; each run is compared with the same
configuration-independent oracle, so equality across configurations and parameters follows.  This plan
re-targets a subset of the C01-C07 grids to the other configurations:
  def      block cache + header pool on          omp   OpenMP code paths, sequentialised
  sse      SSE2 kernels (leaf level)             tiny* scaled-down cache sizes: every cache-derived
  smallc   smallest 'real' cache triple                threshold falls inside the verifiable shapes
and sweeps the admissible table parameter k and the cutoff."""
BOUNDS = {
 "quick": "configs {def, omp, smallc, tinyL1, tinyL2, tinyL3, tinyL3b, tinyple} x a subset of the C01-C07 quick grids; SSE2 vs the same oracle at leaf level (_mzd_combine_N via M4RM with 9-word rows, mzd_combine_even, mzd_row_add_offset); k in 0..10, cutoffs {0,64,128,1000}",
 "thorough": "larger subsets per configuration",
}
OUTSIDE = "real-machine cache triples only change which regime is selected at sizes above the grids; the tiny* triples are outside the 'real machine' range of the property and exist because thresholds only occur in comparisons (a regime verified at a small threshold is the same code a large threshold selects at a large size)"
ASSUMPTIONS = ["OpenMP pragmas ignored by goto-cc (sequential semantics, see C16)"]
import importlib, copy

def plan(tier, seed):
    T = tier == "thorough"
    out = []
    def clone(q, cfg, tag=None, **over):
        c = copy.copy(q)
        c.defs = dict(q.defs); c.layout = dict(q.layout)
        c.name = "%s@%s%s" % (q.name, cfg, tag or "")
        c.cfg = cfg
        c.group = q.group + "@" + cfg
        for k, v in over.items(): setattr(c, k, v)
        return c
    mods = {n: importlib.import_module(n) for n in ("C01", "C02", "C03", "C04", "C05", "C06", "C07", "C13")}
    plans = {n: m.plan("quick", seed) for n, m in mods.items()}
    import re
    def pick(n, rx):
        return [q for q in plans[n] if re.search(rx, q.name) and q.cfg == "ts"]
    FS16 = ("--max-field-sensitivity-array-size", "16")
    # ---- default caches on (FULL / REGION queries only: PASSIVE needs field sensitivity, see DESIGN F25)
    for q in pick("C01", r"^naive0-(3x5x3|2x63x53|2x70x70)-c1|^m4rmfull4-16x3x54-k2|^m4rmB4-16x70x54-k0|^mul6-16x3x54") + pick("C04", r"^left[01]-n8-w65|^right[23]-n8-m3|^russ0-n65-w70-p0") + pick("C13", r"^pright1-3x4-full|^pleft0-6x70-p6"):
        out.append(clone(q, "def", cbmc_flags=FS16))
    # ---- OpenMP code paths (sequentialised), header cache off
    for q in pick("C01", r"^m4rmfull4-16x3x54-k2|^m4rmB[45]-16x70x54-k[03]|^m4rmA4-16x70x54-k0|^naive0-2x70x70-c1") + pick("C02", r"^m4ri-8x134-k[03]-f[01]-p0|^pluq-8x134-p1-f1|^top-8x134-p1$") + pick("C03", r"^alg[23]-8x134-p1") + pick("C06", r"^solve0-3x5-p0-b1$") + pick("C07", r"^k-4x70-p1"):
        out.append(clone(q, "omp"))
    # ---- scaled-down caches
    for cfg in ("tinyL3", "tinyL3b", "smallc", "tinyL2"):
        for q in pick("C01", r"^m4rmB4-(16x70x54|17x33x70)-k[03]$|^m4rmfull4-16x3x54-k2|^naive[01]-2x64x54") + pick("C04", r"^russ[01]-n(65|70)-w70-p0|^rightbig[23]-n70-m3-p0|^left0-n8-w65") + pick("C02", r"^m4ri-8x134-k0-f1-p0|^pluq-8x134-p1-f1") + pick("C05", r"^trtri-band0-n(65|130)"):
            out.append(clone(q, cfg))
    for q in pick("C03", r"^alg[23]-8x(134|198)-p[12]") + pick("C02", r"^pluq-8x(134|198)-p[12]-f1") + pick("C06", r"^solve0-(3x70|70x3)-p0-b1$") + pick("C07", r"^k-8x72-p1"):
        out.append(clone(q, "tinyple"))
    for q in pick("C13", r"^pright[01]-3x70-w(0|62)$|^pright1-3x[48]-full|^ptri-5x5") + pick("C03", r"^alg3-8x134-p1"):
        out.append(clone(q, "tinyL1"))
    # ---- k / cutoff sweeps against the same oracle (ts)
    for q in pick("C02", r"^m4ri-8x134-k0-f1-p0$"):
        for k in range(0, 11):
            c = clone(q, "ts", tag="-k%d" % k); c.defs["KPAR"] = k; c.layout["KPAR"] = k; out.append(c)
    for q in pick("C01", r"^m4rmB4-16x70x54-k0$"):
        for k in (1, 5, 6, 7, 10):
            c = clone(q, "ts", tag="-k%d" % k); c.defs["KPAR"] = k; c.layout["KPAR"] = k; out.append(c)
    for q in pick("C04", r"^russ[01]-n70-w70-p0|^rightbig[23]-n70-m3-p0") + pick("C01", r"^mul[67]-16x3x54"):
        for cut in (0, 64, 128, 1000):
            c = clone(q, "ts", tag="-cut%d" % cut); c.defs["CUTOFF"] = cut; c.layout["CUTOFF"] = cut; out.append(c)
    # ---- SSE2 leaf kernels against the same oracle
    SSE_US = {"mzd_combine_even": 14, "mzd_combine_even_in_place": 14, "mzd_row_add_offset": 14, "_mzd_combine.*": 14, "mzd_process_rows.*": 14}
    out.append(Q("sse-add-2x577@sse", "c08.c", {"H_ADD": None, "NR": 2, "NC": 577, "ALIAS": 0}, cfg="sse", group="c12-sse", timeout=2400, mem_gb=20, unwindset=SSE_US))
    out.append(Q("sse-combine0-2x577@sse", "c13.c", {"H_COMBINE": None, "NR": 2, "NC": 577, "SB": 0, "MODE": 0}, cfg="sse", group="c12-sse", timeout=2400, mem_gb=20, unwindset=SSE_US))
    out.append(Q("sse-rowadd-3x577@sse", "c13.c", {"H_ROWADD": None, "NR": 3, "NC": 577}, cfg="sse", group="c12-sse", timeout=2400, mem_gb=20, unwindset=SSE_US))
    out.append(Q("sse-m4rm-16x16x577@sse", "c01.c", {"MM": 16, "LL": 16, "NN": 577, "ROUTE": 4, "KPAR": 2, "CMODE": 1, "KINIT": 2,
                 "A_SYM_R0": 0, "A_SYM_R1": 0, "A_SYM_W0": 0, "A_SYM_W1": 0, "B_SYM_R0": 0, "B_SYM_R1": 16, "B_SYM_W0": 8, "B_SYM_W1": 10}, cfg="sse", group="c12-sse", timeout=3000, mem_gb=24, unwindset=SSE_US, backend="cadical"))
    names = set()
    res = []
    for q in out:
        if q.name in names: continue
        names.add(q.name); res.append(q)
    return res
