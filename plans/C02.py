"""C02 -- echelon forms: rank, row space, unique RREF (DESIGN 5/C02)."""
BOUNDS = {
 "quick": "FULL (every bit symbolic): naive Gauss / gauss_delayed, both `full`, shapes <= 3x4; PASSIVE [K|S] (K = first 64*KW columns concrete with full row rank, S = 70 fully symbolic columns, 8-12 rows, 5 rank-profile families incl. pivots across the 63/64 boundary and a leading zero word; rank-deficient variants with concrete zero-K rows): mzd_echelonize_m4ri k in {0,1,2,3,5,8} x full in {0,1}, mzd_echelonize_pluq, hybrid mzd_echelonize with every density verdict (stub, enumerated), top-reduction after a non-reduced run",
 "thorough": "FULL naive up to 4x5 / 5x5 / 2x66; PASSIVE up to 20 rows, 2-word K, more seeds, k in 0..10, hybrid mid-way switch (300-column zero gap)",
}
OUTSIDE = "the rank-profile quantifier for the table-driven routines as a whole: in PASSIVE queries the pivot structure (K) is concrete per query, only the passive columns S are universally quantified; FULL symbolic control only for the naive routine <= 5x5"
ASSUMPTIONS = ["PASSIVE: concrete K drawn from LCG(VSEED) / structured families; claim is 'for all S'", "hybrid: _mzd_density replaced by a stub returning an arbitrary verdict (goto-instrument --replace-calls)"]

FS = ("--max-field-sensitivity-array-size", "300")

def plan(tier, seed):
    T = tier == "thorough"
    qs = []
    # ---- FULL naive
    shapes = [(1, 1), (2, 2), (2, 3), (3, 2), (3, 3), (3, 4)] + ([(4, 4), (4, 5), (2, 66), (5, 5)] if T else [])
    for (r, c) in shapes:
        for alg in (0, 1):
            for full in (0, 1):
                if alg == 1 and (r, c) not in ((2, 3), (3, 3)): continue
                qs.append(Q("naive%d-full-%dx%d-f%d" % (alg, r, c, full), "c02.c", {"NR": r, "NC": c, "ALG": alg, "MODE": 0, "FULLRED": full, "KINIT": 1},
                            group="c02-naive", unwindset={"mzd_gauss_delayed": r + 2}, timeout=2400 if r * c > 12 else 900, fallback="kissat", mem_gb=8))
    # ---- PASSIVE
    def P(name, alg, nr, nc, kw, prof, rsym=None, full=1, k=0, lastconc=True, conck=True, dens=False, seedoff=0, thr=None, cfg="ts", to=900, densseqs=(0, 1)):
        if dens:
            for ds in densseqs:
                _P(name + "-d%d" % ds, alg, nr, nc, kw, prof, rsym, full, k, lastconc, conck, True, seedoff, thr, cfg, to, ds)
        else:
            _P(name, alg, nr, nc, kw, prof, rsym, full, k, lastconc, conck, False, seedoff, thr, cfg, to, 0)
    def _P(name, alg, nr, nc, kw, prof, rsym, full, k, lastconc, conck, dens, seedoff, thr, cfg, to, ds):
        d = {"NR": nr, "NC": nc, "ALG": alg, "MODE": 1, "KW": kw, "PROF": prof, "FULLRED": full, "KPAR": k, "VSEED": 1 + seed + seedoff,
             "RSYM": rsym if rsym is not None else (nr - 1 if lastconc else nr)}
        if lastconc: d["LASTCONC"] = None
        if conck: d["CONCK"] = None
        kw2 = {}
        if dens: kw2["replace_calls"] = {"_mzd_density": "verif_density_stub"}; d["DENSSEQ"] = ds
        qs.append(Q(name, "c02.c", d, group="c02-passive-alg%d" % alg, cfg=cfg, backend="cadical", fallback="z3", timeout=to, mem_gb=10, cbmc_flags=FS, **kw2))
    profs1 = [0, 1]
    profs2 = [2, 3, 4]
    for full in (0, 1):
        for k in ([0, 1, 2, 3, 5, 8] if not T else list(range(0, 11))):
            if not T and full == 0 and k in (1, 5): continue
            P("m4ri-8x134-k%d-f%d-p0" % (k, full), 2, 8, 134, 1, 0, full=full, k=k)
        for prof in profs1 + profs2:
            kw = 1 if prof in profs1 else 2
            nc = 64 * kw + 70
            P("m4ri-8x%d-p%d-f%d" % (nc, prof, full), 2, 8, nc, kw, prof, full=full)
            P("pluq-8x%d-p%d-f%d" % (nc, prof, full), 3, 8, nc, kw, prof, full=full)
            P("hybrid-8x%d-p%d-f%d" % (nc, prof, full), 4, 8, nc, kw, prof, full=full, dens=True)
        P("top-8x134-p1-f%d" % full, 6, 8, 134, 1, 1, full=full) if full else None
    for prof in profs1 + profs2:
        kw = 1 if prof in profs1 else 2
        P("top-8x%d-p%d" % (64 * kw + 70, prof), 6, 8, 64 * kw + 70, kw, prof, k=0)
    P("top-8x134-p0-k3", 6, 8, 134, 1, 0, k=3)
    # rank-deficient: rows >= RSYM have zero K-part, concrete S-part (pivots found right of K on concrete data)
    for alg in (2, 3, 4, 6):
        for full in (0, 1):
            if alg == 6 and full == 0: continue
            P("rankdef-alg%d-8x134-f%d" % (alg, full), alg, 8, 134, 1, 1, rsym=5, full=full, conck=False, dens=(alg == 4), to=1200)
    P("rankdef-m4ri-8x134-zero-rows", 2, 8, 134, 1, 0, rsym=6, conck=False, lastconc=False)
    # more rows
    for (nr, alg) in [(12, 2), (12, 3), (16, 2)] + ([(20, 2), (20, 3), (24, 2)] if T else []):
        P("rows%d-alg%d-p1" % (nr, alg), alg, nr, 134, 1, 1, to=1500)
    # gap from column 2 to the next word with cursor offset != 0 (pivot search continues in a later word)
    for alg in (2, 3):
        P("gapword-alg%d-8x198" % alg, alg, 8, 198, 2, 7, to=1500)
        qs[-1].defs.update({"GAPAT": 3, "GAPLEN": 61}); qs[-1].layout.update({"GAPAT": 3, "GAPLEN": 61})
    # number of pivots found in one block (kbar) vs. number of tables: k = 4 => block of 24 columns; kbar = GAPAT
    for kbar in ([7, 10, 14, 18, 21] if not T else list(range(5, 25))):
        P("kbar%d-k4-%dx134" % (kbar, kbar + 2), 2, kbar + 2, 134, 1, 7, k=4, to=1800)
        qs[-1].defs.update({"GAPAT": kbar, "GAPLEN": 24 - kbar + 3}); qs[-1].layout.update({"GAPAT": kbar, "GAPLEN": 24 - kbar + 3})
    # same, but the block with kbar pivots is the SECOND block, so that (full reduction) a row above it is
    # eliminated through the lookup tables: table construction and table indexing must agree on the split
    for kbar in ([18, 21] if not T else [9, 13, 14, 15, 17, 18, 19, 21, 22, 23]):
        P("kbarB%d-k4-%dx134" % (kbar, kbar + 2), 2, kbar + 2, 134, 1, 8, k=4, to=3000)
        qs[-1].defs.update({"GAPAT": kbar, "GAPLEN": 24 - kbar + 3}); qs[-1].layout.update({"GAPAT": kbar, "GAPLEN": 24 - kbar + 3})
    # scaled-down L3: k selection `0.75*2^k*ncols > L3/2` path
    P("m4ri-8x134-tinyL3", 2, 8, 134, 1, 0, cfg="tinyL3b")
    if T:
        for s in (1, 2, 3):
            for alg in (2, 3, 4):
                P("seed%d-alg%d-10x134" % (s, alg), alg, 10, 134, 1, 0, seedoff=10 * s, dens=(alg == 4))
        P("hybrid-mid-8x454-p5", 4, 8, 454, 6, 5, dens=True, to=2400, densseqs=(0, 1, 2))
        P("m4ri-8x454-p5", 2, 8, 454, 6, 5, to=2400)
    return qs
