"""C16 -- OpenMP build (DESIGN 5/C16).  The parallel semantics themselves (pragmas, data-sharing
clauses, thread counts) cannot be encoded: goto-cc drops pragmas and CBMC has no usable thread model on
this code base (F19).  What is decided, in the OpenMP configuration with sequential semantics:
 (a) index-level check of the real _mzd_mul_mp4 / _mzd_addmul_mp4 with SYMBOLIC dimensions and cutoff:
     word-aligned, non-empty, in-range windows; conforming operands of every product; every product term
     reaches every block of C exactly once; the four sections own pairwise different blocks (so they
     commute and any interleaving of the sections equals the sequential result); the multiply route
     never accumulates onto prior contents of C;
 (b) the `#if __M4RI_HAVE_OPENMP` code of M4RM / elimination is functionally correct when executed
     sequentially (same oracles as C01/C02);
     (a planned frame check of one table-building iteration was dropped: the dfcc instrumentation did not
     accept the assigns clause, see DESIGN 9.2)."""
REPLAYABLE = False  # stubs / instrumented program: counterexamples are reported from the solver trace, not re-linked against gcc
BOUNDS = {
 "quick": "(a) m,k,n symbolic in [1,1100], cutoff any multiple of 64 in [64,576], both routes; (b) M4RM / M4RI / PLUQ queries of the C01/C02 grids in configuration omp",
 "thorough": "(b) larger subset",
}
OUTSIDE = "pragma text, private/shared clauses, schedule kinds, OMP_NUM_THREADS, nested regions: a change that only edits a pragma or relies on iteration-to-thread assignment is invisible to this check"
ASSUMPTIONS = ["contract stubs for _mzd_mul_even/_mzd_addmul_even/mzd_addmul_m4rm/_mzd_mul_m4rm (C = A*B resp. C += A*B on conforming non-empty operands: established within bounds by C01)", "sequential semantics of the OpenMP build"]
import importlib, copy, re

RC = {"mzd_init_window": "stub_init_window", "mzd_init": "stub_init", "mzd_free": "stub_free", "_mzd_mul_even": "stub_mul_even", "_mzd_addmul_even": "stub_addmul_even",
      "mzd_addmul_m4rm": "stub_addmul_m4rm", "_mzd_mul_m4rm": "stub__mul_m4rm", "mzd_copy": "stub_copy", "mzd_add": "stub_add"}

def plan(tier, seed):
    T = tier == "thorough"
    qs = []
    for acc in (0, 1):
        qs.append(Q("mp4-shape-acc%d" % acc, "c16.c", {"ACCUM": acc, "MAXDIM": 1100}, cfg="omp", group="c16-shape", replace_calls=RC, checks="safety", timeout=1800, fallback="kissat", mem_gb=10))
    C01 = importlib.import_module("C01"); C02 = importlib.import_module("C02")
    for (mod, rx) in ((C01, r"^m4rmfull4-16x(3|17)x54-k2|^m4rmB[45]-(16x70x54|17x33x70)-k[023]$|^m4rmA4-16x70x54-k[03]"), (C02, r"^m4ri-8x134-k[0238]-f[01]-p0|^pluq-8x134-p[01]-f1|^top-8x134-p1$|^hybrid-8x134-p1-f1")):
        for q in mod.plan("quick", seed):
            if re.search(rx, q.name) and q.cfg == "ts":
                c = copy.copy(q); c.defs = dict(q.defs); c.layout = dict(q.layout); c.cfg = "omp"; c.name = q.name + "@omp"; c.group = q.group + "@omp"
                qs.append(c)
    return qs
