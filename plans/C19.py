"""C19 -- Gray-code tables and word-level bit kernels (finite domains)."""
BOUNDS = {
 "quick": "code books k=1..9 (all 2^k entries via two symbolic indices); parity64 all 4096 input bits; masks all n/offset; swap_bits all words; spread/shrink length 1..16, all strictly increasing Q; lesser_LSB all word pairs; mzd_make_table k<=6, 1-3 words, c in {0,1,63,64,65}",
 "thorough": "code books k=1..10; mzd_make_table k<=8 incl. r>0 and more widths; rest as quick",
}
OUTSIDE = "code books k=11..16 (CBMC needs > 8 GB / > 15 min per book: array store chains grow quadratically; measured, see DESIGN 2 F25); lookup tables for k > 8 (only the code books themselves are checked up to 16); make_table with r+k > nrows (callers never do that)"
ASSUMPTIONS = ["mzd_make_table precondition r + k <= M->nrows; T row 0 is zero (T comes from mzd_init and row 0 is never written)"]

def plan(tier, seed):
    qs = []
    kmax = 9 if tier == "quick" else 10
    for k in range(1, kmax + 1):
        qs.append(Q("code-k%d" % k, "c19.c", {("H_CODE" if k <= 10 else "H_CODE_ENUM"): None, "K": k}, group="c19-code" if k <= 10 else "c19-code-enum", timeout=900, mem_gb=12, backend="cadical", cbmc_flags=() if k <= 10 else ("--max-field-sensitivity-array-size", str(1 << k))))
    qs.append(Q("allcodes", "c19.c", {"H_ALLCODES": None}, group="c19-allcodes", checks="safety", leak=True, replace_calls={"m4ri_build_code": "stub_build_code"}, timeout=600))
    qs.append(Q("parity64", "c19.c", {"H_PARITY": None}, backend="z3", fallback="cadical", timeout=300))
    qs.append(Q("masks", "c19.c", {"H_MASKS": None}, checks="safety"))
    qs.append(Q("swapbits", "c19.c", {"H_SWAPBITS": None}, backend="z3"))
    qs.append(Q("lsb", "c19.c", {"H_LSB": None}))
    for L in range(1, 17):
        qs.append(Q("spread-len%d" % L, "c19.c", {"H_SPREAD": None, "LEN": L}, group="c19-spread", checks="safety"))
    tabs = []
    ks = [1, 2, 3, 4, 5, 6] if tier == "quick" else [1, 2, 3, 4, 5, 6, 7, 8]
    for k in ks:
        for (nc, c) in [(64, 0), (70, 1), (130, 63), (130, 64), (200, 65), (65, 64)]:
            if c + k > nc: continue
            tabs.append((k + 1, nc, 0, c, k))
    if tier == "thorough":
        for k in (3, 5, 8):
            tabs += [(k + 3, 192, 2, 100, k), (k + 2, 640, 1, 70, k), (k + 2, 129, 2, 128 - 0, 1)]
    seen = set()
    for (nr, nc, r, c, k) in tabs:
        if (nr, nc, r, c, k) in seen: continue
        seen.add((nr, nc, r, c, k))
        qs.append(Q("table-%dx%d-r%d-c%d-k%d" % (nr, nc, r, c, k), "c19.c",
                    {"H_TABLE": None, "NR": nr, "NC": nc, "RR": r, "CC": c, "KK": k}, group="c19-table",
                    backend="cadical", timeout=400))
    return qs
