"""C03 -- PLE / PLUQ factorisations (DESIGN 5/C03)."""
BOUNDS = {
 "quick": "FULL (every bit symbolic, P/Q junk on entry): _mzd_ple_naive, _mzd_pluq_naive <= 3x4; PASSIVE [K|S] (K concrete full row rank, S = 70 symbolic columns, 8 rows, rank-profile families incl. gaps across the word boundary and a zero leading word, rank-deficient variants): mzd_ple, mzd_pluq, _mzd_ple_russian / _mzd_pluq_russian with k in {0,2,3,4}; block-recursive _mzd_ple through the tinyple configuration (PLE cutoff 8 words) at 8x198 / 8x262 (split, TRSM, Schur complement, P/Q fix-up, L compression all execute)",
 "thorough": "FULL naive up to 4x4/4x5/2x66; PASSIVE up to 16 rows, more seeds and k in 0..8",
}
OUTSIDE = "all rank profiles at sizes > 4x5 (PASSIVE queries fix the pivot structure per query); recursion depth > 2"
ASSUMPTIONS = ["PASSIVE: concrete K from LCG(VSEED)/structured families; last input row concrete (mzd_first_zero_row must see concrete data)"]
FS = ("--max-field-sensitivity-array-size", "300")

def plan(tier, seed):
    T = tier == "thorough"
    qs = []
    shapes = [(1, 1), (2, 2), (2, 3), (3, 2), (3, 3), (3, 4)] + ([(4, 4), (4, 5), (2, 66)] if T else [])
    for (r, c) in shapes:
        for alg in (0, 1):
            qs.append(Q("naive%d-full-%dx%d" % (alg, r, c), "c03.c", {"NR": r, "NC": c, "ALG": alg, "MODE": 0, "KINIT": 1}, group="c03-naive",
                        unwindset={"_mzd_ple_naive": max(r, c) + 2, "_mzd_pluq_naive": max(r, c) + 2, "mzd_col_swap_in_rows": r + 2}, timeout=2400 if r * c > 9 else 900, fallback="kissat", mem_gb=8))
    def P(name, alg, nr, nc, kw, prof, rsym=None, k=0, conck=True, seedoff=0, cfg="ts", to=1200, cutoff=0):
        d = {"NR": nr, "NC": nc, "ALG": alg, "MODE": 1, "KW": kw, "PROF": prof, "KPAR": k, "CUTOFF": cutoff, "VSEED": 1 + seed + seedoff,
             "RSYM": rsym if rsym is not None else nr - 1, "LASTCONC": None}
        if conck: d["CONCK"] = None
        qs.append(Q(name, "c03.c", d, group="c03-passive-alg%d" % alg, cfg=cfg, backend="cadical", fallback="z3", timeout=to, mem_gb=10, cbmc_flags=FS))
    for alg in (2, 3):
        for prof in (0, 1, 2, 3, 4):
            kw = 1 if prof in (0, 1) else 2
            P("alg%d-8x%d-p%d" % (alg, 64 * kw + 70, prof), alg, 8, 64 * kw + 70, kw, prof)
        P("alg%d-rankdef-8x134" % alg, alg, 8, 134, 1, 1, rsym=5, conck=False)
    for alg in (4, 5):
        for k in ([0, 2, 3, 4] if not T else [0, 1, 2, 3, 4, 5, 6, 8]):
            P("alg%d-8x134-k%d" % (alg, k), alg, 8, 134, 1, 1, k=k)
        P("alg%d-8x198-p2" % alg, alg, 8, 198, 2, 2)
    # block-recursive PLE: PLE cutoff = L3/8 = 8 words; width*nrows > 8 and ncols > 64 => recursion
    for alg in (2, 3):
        P("alg%d-rec-8x198-p6" % alg, alg, 8, 262, 3, 6, cfg="tinyple", to=1800)
        P("alg%d-rec-8x134-p2" % alg, alg, 8, 198, 2, 2, cfg="tinyple", to=1800)
        P("alg%d-rec-8x134-p1" % alg, alg, 8, 134, 1, 1, cfg="tinyple", to=1800)
        P("alg%d-rec-rankdef-8x198" % alg, alg, 8, 198, 2, 2, rsym=5, conck=False, cfg="tinyple", to=1800)
    # trailing zero rows (truncation before factoring; recursive fix-up of P must not run past the truncated rows)
    for alg in (2, 3):
        for cfg in ("ts", "tinyple"):
            P("alg%d-ztail-10x198-%s" % (alg, cfg), alg, 10, 198, 2, 2, rsym=6, cfg=cfg, to=1800)
            qs[-1].defs.update({"ZTAIL": 3}); qs[-1].layout.update({"ZTAIL": 3})
        P("alg%d-gapword-8x198" % alg, alg, 8, 198, 2, 7)
        qs[-1].defs.update({"GAPAT": 3, "GAPLEN": 61}); qs[-1].layout.update({"GAPAT": 3, "GAPLEN": 61})
    if T:
        for s in (1, 2):
            for alg in (2, 3, 4):
                P("seed%d-alg%d-12x134" % (s, alg), alg, 12, 134, 1, 0, seedoff=10 * s)
        P("alg2-16x134-p1", 2, 16, 134, 1, 1, to=2400)
    return qs
