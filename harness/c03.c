/* C03 -- PLE / PLUQ factorisations.  NR x NC.
 * ALG: 0 _mzd_ple_naive  1 _mzd_pluq_naive  2 mzd_ple(A,P,Q,CUTOFF)  3 mzd_pluq(A,P,Q,CUTOFF)
 *      4 _mzd_ple_russian(A,P,Q,KPAR)  5 _mzd_pluq_russian(A,P,Q,KPAR)
 * MODE 0 FULL symbolic, MODE 1 PASSIVE [K|S] (see c02.c).  P and Q are pre-filled with junk.
 * Checks: r == rank(A0); i <= P[i] < m, i <= Q[i] < n; with L (m x r unit lower) and E / U read
 * from the overwritten matrix: L*E == rows of A0 swapped by P (ascending) [PLUQ: and columns swapped
 * by Q (ascending)]; Q[0..r) strictly increasing == column rank profile of A0 (PLE); storage
 * outside L and E/U is zero. */
#include "verif.h"
#include "specla.h"
#define WORDS(c) (((c) + 63) / 64)
#ifndef VSEED
#define VSEED 1
#endif
#ifndef KPAR
#define KPAR 0
#endif
#ifndef CUTOFF
#define CUTOFF 0
#endif
#ifndef MODE
#define MODE 0
#endif
#ifndef KW
#define KW 1
#endif
#ifndef RSYM
#define RSYM NR
#endif
#ifndef PROF
#define PROF 0
#endif
#ifndef KINIT
#define KINIT 8
#endif
#ifndef GAPAT
#define GAPAT 0
#define GAPLEN 0
#endif
#define ISPLUQ (ALG == 1 || ALG == 3 || ALG == 5)

static int prof_col(int i) {
  switch (PROF) {
  case 1: return 2 * i + (i >= 3 ? 9 : 0);
  case 2: return 60 + i;
  case 3: return 64 + 3 * i;
  case 4: return (i < 2) ? i : 61 + i;
  case 6: return (i < 3) ? i : 125 + i; /* pivots continue in the third word (KW >= 3): recursive PLE split */
  case 8: return (i == 0) ? 0 : ((i <= GAPAT) ? 24 + i : 24 + i + GAPLEN); /* one pivot, 24-column gap, then GAPAT pivots in one block, gap */
  case 7: return i + (i >= GAPAT ? GAPLEN : 0);      /* one gap of GAPLEN columns after GAPAT pivots */
  default: return i;
  }
}
static void gen_input(mzd_t *M) {
  enum { W = WORDS(NC) };
  vlcg_seed(VSEED);
  for (int i = 0; i < NR; ++i) {
    word *row = mzd_row(M, i);
    for (int j = 0; j < W; ++j) row[j] = 0;
    int conc = (i >= RSYM);
#ifndef CONCK
    if (!conc)
#endif
    {
      if (PROF == 0) { for (int j = 0; j < KW && j < W; ++j) row[j] = vlcg_next(); }
      else { int pc = prof_col(i); for (int j = pc / 64; j < KW && j < W; ++j) row[j] = vlcg_next();
             row[pc / 64] &= ~(word)0 << (pc % 64); row[pc / 64] |= (word)1 << (pc % 64); }
    }
    for (int j = KW; j < W; ++j) row[j] = conc ? (vlcg_next() & vlcg_next()) : vin_word();
    row[W - 1] &= M->high_bitmask;
  }
  if (PROF != 0)
    for (int i = 1; i < RSYM; ++i) {
      word sel = vlcg_next();
      for (int t = 0; t < i; ++t)
        if ((sel >> t) & 1) for (int j = 0; j < W; ++j) mzd_row(M, i)[j] ^= mzd_row(M, t)[j];
    }
#ifdef ZTAIL /* trailing all-zero rows (after the concrete last non-zero row) */
  for (int i = NR - ZTAIL; i < NR; ++i) for (int j = 0; j < W; ++j) mzd_row(M, i)[j] = 0;
#define NRS (NR - ZTAIL)
#else
#define NRS NR
#endif
#ifdef LASTCONC
  for (int i = NRS - 2; i > 0; --i) {
#else
  for (int i = NRS - 1; i > 0; --i) {
#endif
    int t = (int)(vlcg_next() % (word)(i + 1));
    mzd_row_swap(M, i, t);
  }
}

void harness(void) {
  enum { W = WORDS(NC), WL = WORDS(NR) };
  verif_init(KINIT);
  mzd_t *A = mzd_init(NR, NC);
#if MODE == 0
  vfill(A);
#else
  gen_input(A);
#endif
  static word a0[NR * W], f[NR * W], L[NR * WL], E[NR * W], LE[NR * W];
  ref_from_mzd(a0, W, A);
  mzp_t *P = mzp_init(NR), *Q = mzp_init(NC);
  for (int i = 0; i < NR; ++i) P->values[i] = vin_int(); /* junk on entry */
  for (int i = 0; i < NC; ++i) Q->values[i] = vin_int();
  rci_t r;
#if ALG == 0
  r = _mzd_ple_naive(A, P, Q);
#elif ALG == 1
  r = _mzd_pluq_naive(A, P, Q);
#elif ALG == 2
  r = mzd_ple(A, P, Q, CUTOFF);
#elif ALG == 3
  r = mzd_pluq(A, P, Q, CUTOFF);
#elif ALG == 4
  r = _mzd_ple_russian(A, P, Q, KPAR);
#elif ALG == 5
  r = _mzd_pluq_russian(A, P, Q, KPAR);
#endif
  ref_from_mzd(f, W, A);
  static spec_basis_t S;
  spec_basis(&S, a0, NR, NC, W);
  VASSERT(r == S.rank, "returns rank(A)");
  VASSERT(r >= 0 && r <= NR && r <= NC, "rank in range");
  /* permutations in LAPACK form */
  int okp = 1;
  for (int i = 0; i < NR; ++i) okp &= (P->values[i] >= i && P->values[i] < NR);
  for (int i = 0; i < NC; ++i) okp &= (Q->values[i] >= i && Q->values[i] < NC);
  VASSERT(okp, "i <= P[i] < m and i <= Q[i] < n");
  {
    word d = 0;
    for (int i = 0; i < NR; ++i) d |= mzd_row_const(A, i)[W - 1] & ~vmask(NC);
    VASSERT(d == 0, "padding stays zero");
  }
  /* read back L (m x m, unit diagonal, columns >= r are unit vectors) and E/U (rows >= r zero) */
  int okz = 1, okq = 1;
  for (int i = 0; i < NR; ++i) {
    for (int j = 0; j < WL; ++j) L[i * WL + j] = 0;
    for (int j = 0; j < W; ++j) E[i * W + j] = 0;
  }
  for (int i = 0; i < NR; ++i) {
    /* L: entries (i,k), k < min(i, r) ; diagonal one */
    for (int k = 0; k < NR && k < NC; ++k)
      if (k < i && k < r) L[i * WL + k / 64] |= ((f[i * W + k / 64] >> (k % 64)) & 1) << (k % 64);
    L[i * WL + i / 64] |= (word)1 << (i % 64);
    if (i < r) {
      /* E/U row i: stored entries right of the diagonal; the pivot one is implicit at column Q[i]
       * (PLE, stored on the diagonal) resp. on the diagonal (PLUQ) */
      for (int j = 0; j < W; ++j) {
        word m = ~(word)0; /* columns > i */
        if (j < i / 64) m = 0; else if (j == i / 64) m = ((i % 64) == 63) ? 0 : (~(word)0 << ((i % 64) + 1));
        E[i * W + j] = f[i * W + j] & m;
      }
      okz &= (int)((f[i * W + i / 64] >> (i % 64)) & 1); /* unit diagonal stored */
      int pc = ISPLUQ ? i : Q->values[i];
      if (pc >= 0 && pc < NC)
        for (int j = 0; j < W; ++j) if (j == pc / 64) E[i * W + j] |= (word)1 << (pc % 64);
      if (i > 0) okq &= (Q->values[i] > Q->values[i - 1]);
    } else {
      /* rows below the rank: everything right of the L block must be zero */
      for (int j = 0; j < W; ++j) {
        word m = ~(word)0; /* columns >= r */
        if (j < r / 64) m = 0; else if (j == r / 64) m = ~(word)0 << (r % 64);
        okz &= ((f[i * W + j] & m) == 0);
      }
    }
  }
  VASSERT(okz, "unit diagonal stored; storage outside the L and E/U regions is zero");
  /* L * E  vs  permuted A0 */
  ref_mul(LE, L, NR, NR, WL, E, W, 0);
  for (int i = 0; i < NR; ++i) spec_row_swap(a0, NR, W, i, P->values[i]);
  if (ISPLUQ) for (int i = 0; i < NC; ++i) spec_col_swap(a0, NR, W, i, Q->values[i]);
  word d = 0;
  for (int i = 0; i < NR * W; ++i) d |= LE[i] ^ a0[i];
  VASSERT(d == 0, "P*L*E == A0 (PLUQ: P*L*U*Q == A0)");
  /* pivot columns: strictly increasing and equal to the column rank profile */
  {
    word pm[W];
    for (int j = 0; j < W; ++j) pm[j] = 0;
    for (int i = 0; i < NR; ++i)
      if (i < r) { int pc = Q->values[i]; for (int j = 0; j < W; ++j) if (j == pc / 64) pm[j] |= (word)1 << (pc % 64); }
    word dd = 0;
    for (int j = 0; j < W; ++j) dd |= pm[j] ^ S.profile[j];
    VASSERT(okq && dd == 0, "Q[0..r) strictly increasing and equal to the column rank profile of A0");
  }
  VDONE();
}
