/* C17 -- observers: equal, cmp, is_zero, find_pivot, first_zero_row, read/write bit.
 * VIEW=1: the observed matrices are windows into wider parents whose surroundings are symbolic. */
#include "verif.h"
#define WORDS(c) (((c) + 63) / 64)

#ifndef VIEW
#define VIEW 0
#endif
#ifndef WOFF
#define WOFF 1 /* word offset of a view inside its parent */
#endif

/* a matrix with the given dims: owned, or a view into a (NR+2) x (64*WOFF + NC + 70) parent at
 * row 1, word WOFF, all parent words symbolic */
static mzd_t *obs_mat(int nr, int nc) {
  if (!VIEW) return vmat(nr, nc);
  mzd_t *P = mzd_init(nr + 2, 64 * WOFF + nc + 70);
  vfill(P);
  return mzd_init_window(P, 1, 64 * WOFF, 1 + nr, 64 * WOFF + nc);
}

#if defined(H_EQUAL)
void harness(void) {
  verif_init(0);
  enum { W = WORDS(NC) };
  mzd_t *A = obs_mat(NR, NC), *B = obs_mat(NR, NC);
  static word a[NR * W], b[NR * W];
  ref_from_mzd(a, W, A); ref_from_mzd(b, W, B);
  word d = 0;
  for (int i = 0; i < NR * W; ++i) d |= a[i] ^ b[i];
  VASSERT(mzd_equal(A, B) == (d == 0), "equal <=> all entries equal");
  VASSERT(mzd_equal(A, A) == 1, "reflexive");
  int c1 = mzd_cmp(A, B), c2 = mzd_cmp(B, A);
  VASSERT((c1 == 0) == (d == 0), "cmp == 0 <=> equal");
  VASSERT((c1 < 0) == (c2 > 0) && (c1 > 0) == (c2 < 0), "cmp antisymmetric");
#ifdef DIMS2
  mzd_t *C = obs_mat(NR2, NC2);
  VASSERT(mzd_equal(A, C) == 0 && mzd_equal(C, A) == 0, "different dims are never equal");
  VASSERT(mzd_cmp(A, C) != 0 && ((mzd_cmp(A, C) < 0) == (mzd_cmp(C, A) > 0)), "cmp on different dims: non-zero, antisymmetric");
#endif
  VDONE();
}
#endif

#if defined(H_CMPTRANS)
void harness(void) {
  verif_init(0);
  mzd_t *A = obs_mat(NR, NC), *B = obs_mat(NR, NC), *C = obs_mat(NR, NC);
  int ab = mzd_cmp(A, B), bc = mzd_cmp(B, C), ac = mzd_cmp(A, C);
  if (ab < 0 && bc < 0) VASSERT(ac < 0, "cmp transitive (<)");
  if (ab <= 0 && bc <= 0) VASSERT(ac <= 0, "cmp transitive (<=)");
  if (ab == 0) VASSERT((bc < 0) == (ac < 0) && (bc > 0) == (ac > 0), "cmp respects equality");
  VDONE();
}
#endif

#if defined(H_ISZERO)
void harness(void) {
  verif_init(0);
  enum { W = WORDS(NC) };
  mzd_t *A = obs_mat(NR, NC);
  static word a[NR * W];
  ref_from_mzd(a, W, A);
  word d = 0;
  for (int i = 0; i < NR * W; ++i) d |= a[i];
  VASSERT(mzd_is_zero(A) == (d == 0), "is_zero <=> all entries zero");
  /* first_zero_row: index one past the last non-zero row */
  int last = 0;
  for (int i = 0; i < NR; ++i) {
    word r = 0;
    for (int j = 0; j < W; ++j) r |= a[i * W + j];
    if (r) last = i + 1;
  }
  VASSERT(mzd_first_zero_row(A) == last, "first_zero_row == one past the last non-zero row");
  VDONE();
}
#endif

#if defined(H_PIVOT)
/* start row SR concrete (enumerated by the plan), start column symbolic inside the word band
 * [SCLO, SCHI]: enumerated by a concrete loop in the harness (default; a symbolic start column makes
 * symex 100x slower, measured) or symbolic with -DSCSYM. Contents are symbolic in both modes. */
static int ctz64(word m) { /* m != 0 */
  int n = 0;
  if (!(m & 0xFFFFFFFFull)) { n += 32; m >>= 32; }
  if (!(m & 0xFFFFull)) { n += 16; m >>= 16; }
  if (!(m & 0xFFull)) { n += 8; m >>= 8; }
  if (!(m & 0xFull)) { n += 4; m >>= 4; }
  if (!(m & 0x3ull)) { n += 2; m >>= 2; }
  if (!(m & 0x1ull)) { n += 1; }
  return n;
}
void harness(void) {
  verif_init(0);
  enum { W = WORDS(NC) };
  mzd_t *A = obs_mat(NR, NC);
  static word a[NR * W];
  ref_from_mzd(a, W, A);
  int sr = SR;
#ifdef SCSYM
  int sc = vin_range(SCLO, SCHI);
  {
#else
  for (int sc = SCLO; sc <= SCHI; ++sc) { /* every start column of the band, concretely */
#endif
  rci_t r = -7, c = -9;
  int found = mzd_find_pivot(A, sr, sc, &r, &c);
  /* reference: left-most non-zero column >= sc among rows >= sr */
  int best = -1;
  for (int j = SCLO / 64; j < W; ++j) {
    word m = 0;
    for (int i = sr; i < NR; ++i) m |= a[i * W + j];
    if (j == SCLO / 64) m &= ~(word)0 << (sc % 64);
    if (m && best < 0) best = 64 * j + ctz64(m);
  }
  VASSERT((found != 0) == (best >= 0), "find_pivot fails exactly when the searched region is zero");
  if (found) {
    VASSERT(c == best, "pivot column is the left-most non-zero column of the region");
    VASSERT(r >= sr && r < NR, "pivot row inside the region");
    word hit = 0;
    for (int i = sr; i < NR; ++i) hit |= (i == r) ? ((a[i * W + (best < 0 ? 0 : best) / 64] >> ((best < 0 ? 0 : best) % 64)) & 1) : 0;
    VASSERT(hit == 1, "pivot position holds a one");
  } else {
    VASSERT(r == -7 && c == -9, "r, c untouched on failure");
  }
  }
  VDONE();
}
#endif

#if defined(H_RWBIT)
void harness(void) {
  verif_init(0);
  enum { W = WORDS(NC) };
  mzd_t *A = obs_mat(NR, NC);
  static word a[NR * W];
  ref_from_mzd(a, W, A);
  int i = vin_range(0, NR - 1), j = vin_range(0, NC - 1);
  int i2 = vin_range(0, NR - 1), j2 = vin_range(0, NC - 1);
  int v = vin_range(0, 1);
  VASSERT(mzd_read_bit(A, i, j) == (int)((a[i * W + j / 64] >> (j % 64)) & 1), "read_bit reads entry (i,j)");
  mzd_write_bit(A, i, j, v);
  VASSERT(mzd_read_bit(A, i, j) == v, "read returns what was last written");
  if (i2 != i || j2 != j)
    VASSERT(mzd_read_bit(A, i2, j2) == (int)((a[i2 * W + j2 / 64] >> (j2 % 64)) & 1), "write_bit changes no other entry");
  VDONE();
}
#endif
