/* C13 -- row/column operations, bit-range primitives, permutation application.
 * Contents symbolic; indices / permutations symbolic inside a fixed-size matrix. */
#include "verif.h"
#define WORDS(c) (((c) + 63) / 64)

#ifndef NR
#define NR 3
#endif
#ifndef NC
#define NC 70
#endif
enum { W = WORDS(NC) };

/* ---- reference operations on plain word arrays (branch-free in the symbolic indices) ---- */
static void r_row_swap(word *m, int a, int b) {
  word ra[W], rb[W];
  for (int j = 0; j < W; ++j) { ra[j] = 0; rb[j] = 0; }
  for (int i = 0; i < NR; ++i)
    for (int j = 0; j < W; ++j) {
      ra[j] |= (i == a) ? m[i * W + j] : 0;
      rb[j] |= (i == b) ? m[i * W + j] : 0;
    }
  for (int i = 0; i < NR; ++i)
    for (int j = 0; j < W; ++j) {
      word v = m[i * W + j];
      v = (i == a) ? rb[j] : v;
      v = (i == b) ? ra[j] : v; /* a == b: rb == ra */
      m[i * W + j] = v;
    }
}
static word r_getbit(word const *row, int c) {
  word v = 0;
  for (int j = 0; j < W; ++j) v |= (j == c / 64) ? ((row[j] >> (c % 64)) & 1) : 0;
  return v;
}
static void r_setbit(word *row, int c, word bit) {
  for (int j = 0; j < W; ++j)
    if (j == c / 64) row[j] = (row[j] & ~((word)1 << (c % 64))) | ((bit & 1) << (c % 64));
}
static void r_col_swap_rows(word *m, int a, int b, int r0, int r1) {
  for (int i = 0; i < NR; ++i) {
    if (i >= r0 && i < r1) {
      word x = r_getbit(m + i * W, a), y = r_getbit(m + i * W, b);
      r_setbit(m + i * W, a, y);
      r_setbit(m + i * W, b, x);
    }
  }
}
/* mask of columns >= c in word j */
static word r_from_mask(int j, int c) {
  if (j < c / 64) return 0;
  if (j > c / 64) return ~(word)0;
  return ~(word)0 << (c % 64);
}

#if defined(H_ROWSWAP)
void harness(void) {
  verif_init(0);
  mzd_t *M = vop(NR, NC, 2);
  static word m[NR * W];
  ref_from_mzd(m, W, M);
  int a = vin_range(0, NR - 1), b = vin_range(0, NR - 1);
  mzd_row_swap(M, a, b);
  r_row_swap(m, a, b);
  VASSERT(ref_eq_mzd(m, W, M, VOWNED(M)), "row_swap exchanges exactly rows a and b");
  VFRAMES();
  VDONE();
}
#endif

#if defined(H_COLSWAP)
void harness(void) {
  verif_init(0);
  mzd_t *M = vop(NR, NC, 2);
  static word m[NR * W];
  ref_from_mzd(m, W, M);
  int a = vin_range(0, NC - 1), b = vin_range(0, NC - 1);
#ifdef INROWS
  int r0 = vin_range(0, NR), r1 = vin_range(0, NR);
  VASSUME(r0 <= r1);
  mzd_col_swap_in_rows(M, a, b, r0, r1);
#else
  int r0 = 0, r1 = NR;
  mzd_col_swap(M, a, b);
#endif
  r_col_swap_rows(m, a, b, r0, r1);
  VASSERT(ref_eq_mzd(m, W, M, VOWNED(M)), "col_swap exchanges exactly columns a and b in the row range");
  VFRAMES();
  VDONE();
}
#endif

#if defined(H_ROWADD)
void harness(void) {
  verif_init(0);
  mzd_t *M = vop(NR, NC, 2);
  static word m[NR * W];
  ref_from_mzd(m, W, M);
  int d = vin_range(0, NR - 1), s = vin_range(0, NR - 1);
  if (!VOWNED(M)) VASSUME(d != s); /* "adding one row to ANOTHER": on a view, adding a row to itself is outside the stated operation */
#ifdef NOOFFSET
  int c = 0;
  mzd_row_add(M, s, d);
#else
  int c = vin_range(0, NC - 1);
  mzd_row_add_offset(M, d, s, c);
#endif
  word src[W];
  for (int j = 0; j < W; ++j) { src[j] = 0; for (int i = 0; i < NR; ++i) src[j] |= (i == s) ? m[i * W + j] : 0; }
  for (int i = 0; i < NR; ++i)
    for (int j = 0; j < W; ++j)
      if (i == d) m[i * W + j] ^= src[j] & r_from_mask(j, c);
  VASSERT(ref_eq_mzd(m, W, M, VOWNED(M)), "row d += row s on columns >= coloffset, nothing else");
  VFRAMES();
  VDONE();
}
#endif

#if defined(H_ROWCLEAR)
void harness(void) {
  verif_init(0);
  mzd_t *M = vop(NR, NC, 2);
  static word m[NR * W];
  ref_from_mzd(m, W, M);
  int r = vin_range(0, NR - 1);
  int c = vin_range(0, NC - 1);
  mzd_row_clear_offset(M, r, c);
  for (int i = 0; i < NR; ++i)
    for (int j = 0; j < W; ++j)
      if (i == r) m[i * W + j] &= ~r_from_mask(j, c);
  VASSERT(ref_eq_mzd(m, W, M, VOWNED(M)), "row r cleared on columns >= coloffset, nothing else");
  VFRAMES();
  VDONE();
}
#endif

#if defined(H_BITS)
/* OP: 0 read_bits, 1 xor_bits, 2 clear_bits, 3 read_bits_int (n <= 16).
 * Reference: the n bits at columns [y, y+n) of row x seen as a 128-bit window over words k=y/64, k+1 */
void harness(void) {
  verif_init(0);
  mzd_t *M = vop(NR, NC, 2);
  static word m[NR * W];
  ref_from_mzd(m, W, M);
  int x = vin_range(0, NR - 1);
  int n = vin_range(1, 64);
  int y = vin_range(0, NC - 1);
  VASSUME(y + n <= NC);
  word nmask = (n == 64) ? ~(word)0 : (((word)1 << n) - 1);
  int k = y / 64, s = y % 64;
  word lo = 0, hi = 0; /* words k and k+1 of row x */
  for (int i = 0; i < NR; ++i)
    for (int j = 0; j < W; ++j) {
      lo |= (i == x && j == k) ? m[i * W + j] : 0;
      hi |= (i == x && j == k + 1) ? m[i * W + j] : 0;
    }
  word val = ((lo >> s) | (s ? (hi << (64 - s)) : 0)) & nmask;
  word mlo = nmask << s, mhi = s ? (nmask >> (64 - s)) : 0; /* window mask in words k, k+1 */
#if OP == 0
  VASSERT(mzd_read_bits(M, x, y, n) == val, "read_bits returns bits [y,y+n) of row x");
  VASSERT(ref_eq_mzd(m, W, M, VOWNED(M)), "read_bits does not modify");
#elif OP == 3
  VASSUME(n <= 16);
  VASSERT((word)mzd_read_bits_int(M, x, y, n) == val, "read_bits_int returns bits [y,y+n) of row x");
#elif OP == 1
  word v = vin_word() & nmask;
  mzd_xor_bits(M, x, y, n, v);
  for (int i = 0; i < NR; ++i)
    for (int j = 0; j < W; ++j) {
      if (i == x && j == k) m[i * W + j] ^= v << s;
      if (i == x && j == k + 1) m[i * W + j] ^= s ? (v >> (64 - s)) : 0;
    }
  VASSERT(ref_eq_mzd(m, W, M, VOWNED(M)), "xor_bits flips exactly the addressed entries");
#elif OP == 2
  mzd_clear_bits(M, x, y, n);
  for (int i = 0; i < NR; ++i)
    for (int j = 0; j < W; ++j) {
      if (i == x && j == k) m[i * W + j] &= ~mlo;
      if (i == x && j == k + 1) m[i * W + j] &= ~mhi;
    }
  VASSERT(ref_eq_mzd(m, W, M, VOWNED(M)), "clear_bits clears exactly the addressed entries");
#endif
  VFRAMES();
  VDONE();
}
#endif

#if defined(H_COMBINE)
/* MODE 0: combine_even_in_place(A,ar,SB,B,br,SB)  1: combine_even(C,cr,SB,A,ar,SB,B,br,SB)
 *      2: mzd_combine with C==A,cr==ar (dispatches in place)  3: mzd_combine general */
void harness(void) {
  verif_init(0);
  mzd_t *A = vop(NR, NC, 0), *B = vop(NR, NC, 1), *C = vop(NR, NC, 2);
  static word a[NR * W], b[NR * W], c[NR * W];
  ref_from_mzd(a, W, A); ref_from_mzd(b, W, B); ref_from_mzd(c, W, C);
  int ar = vin_range(0, NR - 1), br = vin_range(0, NR - 1), cr = vin_range(0, NR - 1);
  word ra[W], rb[W];
  for (int j = 0; j < W; ++j) { ra[j] = 0; rb[j] = 0; for (int i = 0; i < NR; ++i) { ra[j] |= (i == ar) ? a[i * W + j] : 0; rb[j] |= (i == br) ? b[i * W + j] : 0; } }
#if MODE == 0 || MODE == 2
#if MODE == 0
  mzd_combine_even_in_place(A, ar, SB, B, br, SB);
#else
  mzd_combine(A, ar, SB, A, ar, SB, B, br, SB);
#endif
  for (int i = 0; i < NR; ++i) for (int j = SB; j < W; ++j) if (i == ar) a[i * W + j] ^= rb[j];
  VASSERT(ref_eq_mzd(a, W, A, VOWNED(A)), "A[ar][SB:] += B[br][SB:], nothing else");
  VASSERT(ref_eq_mzd(b, W, B, VOWNED(B)) && ref_eq_mzd(c, W, C, VOWNED(C)), "other operands unchanged");
#else
#if MODE == 1
  mzd_combine_even(C, cr, SB, A, ar, SB, B, br, SB);
#else
  mzd_combine(C, cr, SB, A, ar, SB, B, br, SB);
#endif
  for (int i = 0; i < NR; ++i) for (int j = SB; j < W; ++j) if (i == cr) c[i * W + j] = ra[j] ^ rb[j];
  VASSERT(ref_eq_mzd(c, W, C, VOWNED(C)), "C[cr][SB:] = A[ar][SB:] + B[br][SB:], nothing else");
  VASSERT(ref_eq_mzd(a, W, A, VOWNED(A)) && ref_eq_mzd(b, W, B, VOWNED(B)), "sources unchanged");
#endif
  VFRAMES();
  VDONE();
}
#endif

/* ---- permutations ---- */
#if defined(H_PLEFT) || defined(H_PRIGHT) || defined(H_PTRI)
#ifndef PL
#define PL NR
#endif
/* symbolic LAPACK-style permutation: i <= P[i] < PL; non-identity only inside [WLO, WHI) if given */
static mzp_t *sym_perm(void) {
  mzp_t *P = mzp_init(PL);
  for (int i = 0; i < PL; ++i) {
#ifdef WLO
    if (i < WLO || i >= WHI) { P->values[i] = i; continue; }
#endif
    int v = vin_range(0, PL - 1);
    VASSUME(v >= i);
    P->values[i] = v;
  }
  return P;
}
#endif

#if defined(H_PLEFT)
/* TRANS 0/1 ; P of length PL <= NR (shorter permutation allowed) */
void harness(void) {
  verif_init(0);
  mzd_t *M = vop(NR, NC, 2);
  static word m[NR * W], m0[NR * W];
  ref_from_mzd(m, W, M); ref_from_mzd(m0, W, M);
  mzp_t *P = sym_perm();
  int pv[PL];
  for (int i = 0; i < PL; ++i) pv[i] = P->values[i];
  if (TRANS) mzd_apply_p_left_trans(M, P); else mzd_apply_p_left(M, P);
  if (!TRANS) for (int i = 0; i < PL; ++i) r_row_swap(m, i, pv[i]);
  else for (int i = PL - 1; i >= 0; --i) r_row_swap(m, i, pv[i]);
  VASSERT(ref_eq_mzd(m, W, M, VOWNED(M)), "left application = row swaps i<->P[i] (ascending; transposed: descending)");
  for (int i = 0; i < PL; ++i) VASSERT(P->values[i] == pv[i], "P unchanged");
  /* undone by the transposed counterpart */
  if (TRANS) mzd_apply_p_left(M, P); else mzd_apply_p_left_trans(M, P);
  VASSERT(ref_eq_mzd(m0, W, M, VOWNED(M)), "application undone by its transposed counterpart");
  VFRAMES();
  VDONE();
}
#endif

#if defined(H_PRIGHT)
/* TRANS 0/1 ; P of length PL <= NC ; optional SROW (capped variant: rows >= SROW only, trans only) */
void harness(void) {
  verif_init(0);
  mzd_t *M = vop(NR, NC, 2);
  static word m[NR * W], m0[NR * W];
  ref_from_mzd(m, W, M); ref_from_mzd(m0, W, M);
  mzp_t *P = sym_perm();
  int pv[PL];
  for (int i = 0; i < PL; ++i) pv[i] = P->values[i];
#ifdef SROW
  if (TRANS) mzd_apply_p_right_trans_even_capped(M, P, SROW, 0); else mzd_apply_p_right_even_capped(M, P, SROW, 0);
  int r0 = SROW;
#else
  if (TRANS) mzd_apply_p_right_trans(M, P); else mzd_apply_p_right(M, P);
  int r0 = 0;
#endif
  if (TRANS) for (int i = 0; i < PL; ++i) r_col_swap_rows(m, i, pv[i], r0, NR);
  else for (int i = PL - 1; i >= 0; --i) r_col_swap_rows(m, i, pv[i], r0, NR);
  VASSERT(ref_eq_mzd(m, W, M, VOWNED(M)), "right application = column swaps i<->P[i] (descending; transposed: ascending)");
  for (int i = 0; i < PL; ++i) VASSERT(P->values[i] == pv[i], "P unchanged");
#ifndef SROW
  if (TRANS) mzd_apply_p_right(M, P); else mzd_apply_p_right_trans(M, P);
  VASSERT(ref_eq_mzd(m0, W, M, VOWNED(M)), "application undone by its transposed counterpart");
#endif
  VFRAMES();
  VDONE();
}
#endif

#if defined(H_PTRI)
/* mzd_apply_p_right_trans_tri: swap i (ascending) only on rows above row i; PL == NC */
void harness(void) {
  verif_init(0);
  mzd_t *M = vop(NR, NC, 2);
  static word m[NR * W];
  ref_from_mzd(m, W, M);
  mzp_t *P = sym_perm();
  int pv[PL];
  for (int i = 0; i < PL; ++i) pv[i] = P->values[i];
  mzd_apply_p_right_trans_tri(M, P);
  for (int i = 0; i < PL; ++i) r_col_swap_rows(m, i, pv[i], 0, i < NR ? i : NR);
  VASSERT(ref_eq_mzd(m, W, M, VOWNED(M)), "triangular right application: swap i only on rows above row i");
  VFRAMES();
  VDONE();
}
#endif

#if defined(H_PCONSIST)
/* left and right application multiply by the same permutation matrix:
 * (e_j applied from the right) vs (identity rows from the left):  (I*P)[i][j] == (P*I)[i][j] */
void harness(void) {
  verif_init(0);
  enum { N = NC };
  mzd_t *L = mzd_init(N, N), *R = mzd_init(N, N);
  mzd_set_ui(L, 1); mzd_set_ui(R, 1);
  mzp_t *P = mzp_init(N);
  for (int i = 0; i < N; ++i) { int v = vin_range(0, N - 1); VASSUME(v >= i); P->values[i] = v; }
  if (TRANS) { mzd_apply_p_left_trans(L, P); mzd_apply_p_right_trans(R, P); }
  else { mzd_apply_p_left(L, P); mzd_apply_p_right(R, P); }
  static word l[N * WORDS(N)];
  ref_from_mzd(l, WORDS(N), L);
  VASSERT(ref_eq_mzd(l, WORDS(N), R, VOWNED(R)), "P*I == I*P : left and right application use the same permutation matrix");
  VFRAMES();
  VDONE();
}
#endif
