/* C01 (DJB route) -- djb_compile(A) followed by djb_apply_mzd(z, W, V) on a zeroed W gives W == A*V.
 * AMODE 0: A fully symbolic (tiny; the compiler's heap order is data dependent => unwindset),
 * AMODE 1: A concrete (pattern APAT / seed), V fully symbolic. */
#include "verif.h"
#include <m4ri/djb.h>
#define WORDS(c) (((c) + 63) / 64)
#ifndef VSEED
#define VSEED 1
#endif
#ifndef APAT
#define APAT 0
#endif
void harness(void) {
  enum { WA = WORDS(NA), WV = WORDS(NV) };
  vlcg_seed(VSEED);
  mzd_t *A = mzd_init(MA, NA);
#if AMODE == 0
  vfill(A);
#else
  vfill_mixed(A, APAT, 0, 0, 0, 0);
#endif
  mzd_t *V = vmat(NA, NV);
  mzd_t *Wm = mzd_init(MA, NV);
  static word a[MA * WA], v[NA * WV], c[MA * WV];
  ref_from_mzd(a, WA, A); ref_from_mzd(v, WV, V);
  mzd_t *Ac = mzd_copy(NULL, A); /* djb_compile consumes its argument */
  djb_t *z = djb_compile(Ac);
  VASSERT(z != NULL && z->nrows == MA && z->ncols == NA, "compiled map has the shape of A");
  djb_apply_mzd(z, Wm, V);
  ref_mul(c, a, MA, NA, WA, v, WV, 0);
  VASSERT(ref_eq_mzd(c, WV, Wm, 1), "djb_apply_mzd on a zeroed target == A*V");
  VASSERT(ref_eq_mzd(v, WV, V, 1), "V unchanged");
  VDONE();
}
