/* C16 (c): one iteration of the `parallel for` over lookup tables writes only its own table / index
 * array: dynamic frame check of the real mzd_make_table. */
#include "verif.h"
void scen(mzd_t const *B, mzd_t *T, rci_t *L)
  __CPROVER_assigns(__CPROVER_object_whole(T->data), __CPROVER_object_whole(L))
{
  mzd_make_table(B, 1, 0, KK, T, L);
}
void harness(void) {
  verif_init(KK);
  mzd_t *B = mzd_init(KK + 2, NC); vlcg_seed(1); vfill_mixed(B, 0, 0, 0, 0, 0);
  mzd_t *T = mzd_init(1 << KK, NC);
  rci_t *L = (rci_t *)malloc(sizeof(rci_t) << KK);
  __CPROVER_assume(L != NULL);
  scen(B, T, L);
  VDONE();
}
