/* C02 / C05 / C12 -- echelon forms.  NR x NC matrix.
 * MODE 0 FULL   : every bit symbolic (tiny shapes).
 * MODE 1 PASSIVE: A = [K | S]: the first KW words of every row are concrete (K has full row rank on
 *                 its first RSYM rows, rank profile family PROF, seed VSEED), the remaining words of
 *                 those rows are symbolic; rows >= RSYM have a zero K-part and a concrete S-part
 *                 (they can only find pivots to the right of K, on concrete data).
 * ALG: 0 mzd_echelonize_naive  1 mzd_gauss_delayed(M,0,full)  2 mzd_echelonize_m4ri(M,full,KPAR)
 *      3 mzd_echelonize_pluq   4 mzd_echelonize (hybrid)      5 _mzd_echelonize_m4ri(M,full,KPAR,1,THR)
 *      6 mzd_echelonize_m4ri(M,0,KPAR) then mzd_top_echelonize_m4ri(M,KPAR)  (must give the RREF)
 */
#include "verif.h"
#include "specla.h"
#define WORDS(c) (((c) + 63) / 64)
#ifndef VSEED
#define VSEED 1
#endif
#ifndef KPAR
#define KPAR 0
#endif
#ifndef FULLRED
#define FULLRED 1
#endif
#ifndef MODE
#define MODE 0
#endif
#ifndef KW
#define KW 1
#endif
#ifndef RSYM
#define RSYM NR
#endif
#ifndef PROF
#define PROF 0
#endif
#ifndef KINIT
#define KINIT 8
#endif
#ifndef GAPAT
#define GAPAT 0
#define GAPLEN 0
#endif
#ifndef THRNUM
#define THRNUM 1 /* threshold = THRNUM / 100.0 */
#endif

/* pivot column of row i for the structured profiles */
static int prof_col(int i) {
  switch (PROF) {
  case 1: return 2 * i + (i >= 3 ? 9 : 0);           /* staircase with gaps */
  case 2: return 60 + i;                             /* run across the 63/64 word boundary (KW >= 2) */
  case 3: return 64 + 3 * i;                         /* first 64 columns entirely zero (KW >= 2) */
  case 4: return (i < 2) ? i : 61 + i;               /* gap from column 1 to 63.. */
  case 5: return (i < 3) ? i : 297 + i;              /* gap of ~300 zero columns (KW >= 6): mid-way density check of the hybrid */
  case 8: return (i == 0) ? 0 : ((i <= GAPAT) ? 24 + i : 24 + i + GAPLEN); /* one pivot, 24-column gap, then GAPAT pivots in one block, gap */
  case 7: return i + (i >= GAPAT ? GAPLEN : 0);      /* one gap of GAPLEN columns after GAPAT pivots */
  default: return i;
  }
}

static void gen_input(mzd_t *M) {
  enum { W = WORDS(NC) };
  vlcg_seed(VSEED);
  for (int i = 0; i < NR; ++i) {
    word *row = mzd_row(M, i);
    for (int j = 0; j < W; ++j) row[j] = 0;
    if (i < RSYM) {
      if (PROF == 0) {
        for (int j = 0; j < KW && j < W; ++j) row[j] = vlcg_next();
      } else {
        int pc = prof_col(i);
        for (int j = pc / 64; j < KW && j < W; ++j) row[j] = vlcg_next();
        row[pc / 64] &= ~(word)0 << (pc % 64);
        row[pc / 64] |= (word)1 << (pc % 64);
      }
      for (int j = KW; j < W; ++j) row[j] = vin_word();
    } else {
#ifdef CONCK /* concrete rows also get an (independent) K-part: all pivots stay inside K */
      if (PROF == 0) { for (int j = 0; j < KW && j < W; ++j) row[j] = vlcg_next(); }
      else { int pc = prof_col(i); for (int j = pc / 64; j < KW && j < W; ++j) row[j] = vlcg_next();
             row[pc / 64] &= ~(word)0 << (pc % 64); row[pc / 64] |= (word)1 << (pc % 64); }
#endif
      for (int j = KW; j < W; ++j) row[j] = vlcg_next() & vlcg_next();
    }
    row[W - 1] &= M->high_bitmask;
  }
  if (PROF != 0) { /* hide the staircase: add earlier rows into later ones (K-part and S-part alike), then shuffle */
    for (int i = 1; i < RSYM; ++i) {
      word sel = vlcg_next();
      for (int t = 0; t < i; ++t)
        if ((sel >> t) & 1) for (int j = 0; j < W; ++j) mzd_row(M, i)[j] ^= mzd_row(M, t)[j];
    }
  }
#ifdef ZTAIL /* trailing all-zero rows (after the concrete last non-zero row) */
  for (int i = NR - ZTAIL; i < NR; ++i) for (int j = 0; j < W; ++j) mzd_row(M, i)[j] = 0;
#define NRS (NR - ZTAIL)
#else
#define NRS NR
#endif
#ifdef LASTCONC /* keep the last row where it is: it is fully concrete and non-zero, so mzd_first_zero_row
                   (first thing the PLE-based routes do) returns a concrete row count */
  for (int i = NRS - 2; i > 0; --i) {
#else
  for (int i = NRS - 1; i > 0; --i) { /* concrete Fisher-Yates */
#endif
    int t = (int)(vlcg_next() % (word)(i + 1));
    mzd_row_swap(M, i, t);
  }
}

/* density heuristic of the hybrid replaced by an arbitrary verdict (DENSTUB queries): the result must
 * be right for every switching threshold: every verdict sequence is enumerated */
#ifndef DENSSEQ
#define DENSSEQ 0
#endif
static int dens_calls;
double verif_density_stub(mzd_t const *A, wi_t res, rci_t r, rci_t c) {
  (void)A; (void)res; (void)r; (void)c;
  /* the i-th density query answers "dense" iff bit i of DENSSEQ is set: the plan enumerates the verdict
   * sequences (a symbolic verdict merges two concrete control flows and symex diverges, measured) */
  int v = (DENSSEQ >> dens_calls) & 1;
  dens_calls++;
  return v ? 1.0 : 0.0;
}

void harness(void) {
  enum { W = WORDS(NC) };
  verif_init(KINIT);
  mzd_t *M = vop_raw(NR, NC, 2, 0);
#if MODE == 0
  vfill(M);
#else
  if (VOWNED(M)) gen_input(M);
  else { mzd_t *G = mzd_init(NR, NC); gen_input(G); vcopy_into(M, G); }
#endif
  static word a0[NR * W], r[NR * W];
  ref_from_mzd(a0, W, M);
  rci_t rank;
#if ALG == 0
  rank = mzd_echelonize_naive(M, FULLRED);
#elif ALG == 1
  rank = mzd_gauss_delayed(M, 0, FULLRED);
#elif ALG == 2
  rank = mzd_echelonize_m4ri(M, FULLRED, KPAR);
#elif ALG == 3
  rank = mzd_echelonize_pluq(M, FULLRED);
#elif ALG == 4
  rank = mzd_echelonize(M, FULLRED);
#elif ALG == 5
  rank = _mzd_echelonize_m4ri(M, FULLRED, KPAR, 1, THRNUM / 100.0);
#elif ALG == 6
  rank = mzd_echelonize_m4ri(M, 0, KPAR);
  mzd_top_echelonize_m4ri(M, KPAR);
#endif
  ref_from_mzd(r, W, M);
  if (VOWNED(M)) {
    word d = 0;
    for (int i = 0; i < NR; ++i) d |= mzd_row_const(M, i)[W - 1] & ~vmask(NC);
    VASSERT(d == 0, "padding stays zero");
  }
  int reduced = (FULLRED || ALG == 6);
  VASSERT(spec_check_echelon(a0, r, NR, NC, W, reduced, rank),
          "returns rank(A); result is a (reduced) row echelon form spanning the row space of A");
  VFRAMES();
  VDONE();
}
