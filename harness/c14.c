/* C14 -- allocation history.  Configuration `def` (block cache + header pool on).
 * H_POOL   : one inductive step of the header pool from an arbitrary valid state (this TU includes
 *            mzd.c to reach the statics; mzd.c is excluded from the link).
 * H_MMC    : one step of the block cache from an arbitrary valid cache state.
 * H_HIST   : scripted histories (concrete op sequence SCRIPT, symbolic canary contents, nondeterministic
 *            heap contents) with scaled-down capacities (hook M4RI_VERIF_*), leak check at the end.
 */
#if defined(H_POOL)
#define log2_floor mzd_c_log2_floor /* mzd.c has its own static log2_floor; graycode.h (via m4ri.h below) another */
#include <m4ri/mzd.c> /* the real translation unit, found through -I$REPO */
#undef log2_floor
#endif
#include "verif.h"

#if defined(H_POOL)
/* ---------- arbitrary valid pool state: chain of NBLK blocks (head = the static mzd_cache) ---------- */
#ifndef NBLK
#define NBLK 1
#endif
static mzd_t_cache_t *blk[4];
static int pool_valid_chain(int n) { /* list from &mzd_cache is exactly blk[0..n) doubly linked */
  mzd_t_cache_t *c = &mzd_cache;
  if (c->prev != NULL) return 0;
  for (int i = 0; i < n; ++i) {
    if (c != blk[i]) return 0;
    if (i + 1 < n) { if (c->next != blk[i + 1] || blk[i + 1]->prev != c) return 0; }
    else if (c->next != NULL) return 0;
    c = c->next;
  }
  return 1;
}
static void pool_setup(void) {
  blk[0] = &mzd_cache;
  for (int i = 1; i < NBLK; ++i) {
    blk[i] = (mzd_t_cache_t *)malloc(sizeof(mzd_t_cache_t));
    __CPROVER_assume(blk[i] != NULL);
  }
  for (int i = 0; i < NBLK; ++i) {
    blk[i]->prev = i ? blk[i - 1] : NULL;
    blk[i]->next = (i + 1 < NBLK) ? blk[i + 1] : NULL;
    blk[i]->used = vin_word();
    if (i > 0) __CPROVER_assume(blk[i]->used != 0); /* an emptied non-head block is unlinked at once */
  }
  int cur = vin_range(0, NBLK - 1);
  current_cache = blk[0];
  for (int i = 0; i < NBLK; ++i) if (i == cur) current_cache = blk[i];
}
static int in_block(mzd_t *p, mzd_t_cache_t *b) { return __CPROVER_same_object(p, b) ; }

void harness(void) {
  pool_setup();
  uint64_t u0[4];
  for (int i = 0; i < NBLK; ++i) u0[i] = blk[i]->used;
#if STEP == 0
  /* ---- one mzd_t_malloc ---- */
  mzd_t *r = mzd_t_malloc();
  VASSERT(r != NULL, "a header is returned");
  int allfull = 1;
  for (int i = 0; i < NBLK; ++i) allfull &= (u0[i] == ~(uint64_t)0);
  int hit = 0;
  for (int i = 0; i < NBLK; ++i) {
    if (in_block(r, blk[i])) {
      hit = 1;
      long e = r - blk[i]->mzd;
      VASSERT(e >= 0 && e < 64, "slot index in range");
      VASSERT(((u0[i] >> e) & 1) == 0, "the slot handed out was free");
      VASSERT(blk[i]->used == (u0[i] | ((uint64_t)1 << e)), "exactly that slot is now marked used");
      VASSERT(__CPROVER_POINTER_OFFSET(r) % 64 == 0, "header is 64-byte aligned inside its block");
    } else {
      VASSERT(blk[i]->used == u0[i], "other blocks untouched");
    }
  }
  if (!allfull) { VASSERT(hit, "a free slot of an existing block is used while one exists"); VASSERT(pool_valid_chain(NBLK), "list unchanged"); }
  if (allfull && NBLK < __M4RI_MZD_T_CACHE_MAX) {
    VASSERT(!hit, "all blocks full: the header comes from a new block");
    mzd_t_cache_t *nb = blk[NBLK - 1]->next;
    VASSERT(nb != NULL && nb->prev == blk[NBLK - 1] && nb->next == NULL && current_cache == nb, "new block appended and current");
    VASSERT(in_block(r, nb) && nb->used != 0 && (nb->used & (nb->used - 1)) == 0, "exactly one slot of the new block is used");
  }
  if (allfull && NBLK >= __M4RI_MZD_T_CACHE_MAX) {
    VASSERT(!hit, "block limit reached: fallback allocation outside the pool");
    VASSERT(pool_valid_chain(NBLK), "list unchanged");
  }
#else
  /* ---- one mzd_t_free of a live slot of block FB ---- */
  int e = vin_range(0, 63);
  __CPROVER_assume((u0[FB] >> e) & 1);
  mzd_t *M = &blk[FB]->mzd[e];
  mzd_t_cache_t *prevb = blk[FB]->prev, *nextb = blk[FB]->next;
  int was_current = (current_cache == blk[FB]);
  mzd_t_free(M);
  uint64_t after = u0[FB] & ~((uint64_t)1 << e);
  for (int i = 0; i < NBLK; ++i) if (i != FB) VASSERT(blk[i]->used == u0[i], "other blocks untouched");
  if (after != 0 || FB == 0) {
    VASSERT(blk[FB]->used == after, "exactly the freed slot is cleared");
    VASSERT(pool_valid_chain(NBLK), "list unchanged");
    if (after == 0 && FB == 0) VASSERT(current_cache == &mzd_cache, "emptied head block becomes current");
  } else {
    /* emptied non-head block: unlinked and released */
    VASSERT(prevb->next == nextb, "forward link repaired");
    if (nextb) VASSERT(nextb->prev == prevb, "backward link repaired");
    VASSERT(current_cache != blk[FB], "current_cache never points to a released block");
    if (was_current) VASSERT(current_cache == prevb, "current moves to the predecessor");
    /* the chain without blk[FB] */
    mzd_t_cache_t *c = &mzd_cache;
    int n = 0;
    for (int i = 0; i < NBLK; ++i) { if (i == FB) continue; VASSERT(c == blk[i], "remaining chain intact"); c = c->next; ++n; }
    VASSERT(c == NULL, "chain ends");
  }
#endif
  VDONE();
}
#endif

#if defined(H_MMC)
/* arbitrary valid block cache: slot i holds either nothing (size 0) or a live block of size sz[i] */
#include <m4ri/mmc.h>
extern mmb_t m4ri_mmc_cache[__M4RI_MMC_NBLOCKS];
#ifndef NB
#define NB __M4RI_MMC_NBLOCKS
#endif
void harness(void) {
  size_t sz[NB];
  void *pt[NB];
  for (int i = 0; i < NB; ++i) {
    int pick = vin_range(0, 3);
    sz[i] = (pick == 0) ? 0 : (pick == 1 ? 64 : (pick == 2 ? 128 : 192));
    pt[i] = NULL;
    if (sz[i]) { pt[i] = malloc(sz[i]); __CPROVER_assume(pt[i] != NULL); }
    m4ri_mmc_cache[i].size = sz[i];
    m4ri_mmc_cache[i].data = pt[i];
  }
#if STEP == 0
  int pick = vin_range(1, 4);
  size_t want = (pick == 1) ? 64 : (pick == 2 ? 128 : (pick == 3 ? 192 : 256));
  void *r = m4ri_mmc_malloc(want);
  VASSERT(r != NULL, "a block is returned");
  int from = -1;
  for (int i = 0; i < NB; ++i) if (pt[i] != NULL && r == pt[i]) from = i;
  int avail = 0;
  for (int i = 0; i < NB; ++i) avail |= (sz[i] == want);
  VASSERT((from >= 0) == (avail != 0), "a cached block of exactly the requested size is reused iff one exists");
  for (int i = 0; i < NB; ++i) {
    if (i == from) { VASSERT(sz[i] == want, "reused block has exactly the requested size"); VASSERT(m4ri_mmc_cache[i].size == 0 && m4ri_mmc_cache[i].data == NULL, "slot cleared when handed out"); }
    else VASSERT(m4ri_mmc_cache[i].size == sz[i] && m4ri_mmc_cache[i].data == pt[i], "other slots untouched");
  }
  if (from < 0) for (int i = 0; i < NB; ++i) VASSERT(pt[i] == NULL || !__CPROVER_same_object(r, pt[i]), "fresh block aliases no cached block");
  /* the block is usable in full */
  ((char *)r)[0] = 1; ((char *)r)[want - 1] = 1;
#else
  int pick = vin_range(1, 3);
  size_t have = (pick == 1) ? 64 : (pick == 2 ? 128 : 192);
  void *p = malloc(have);
  __CPROVER_assume(p != NULL);
  int nfree = 0;
  for (int i = 0; i < NB; ++i) nfree += (sz[i] == 0);
  m4ri_mmc_free(p, have);
  int where = -1, changed = 0;
  for (int i = 0; i < NB; ++i) {
    if (m4ri_mmc_cache[i].data == p) where = i;
    if (m4ri_mmc_cache[i].size != sz[i] || m4ri_mmc_cache[i].data != pt[i]) changed++;
  }
  VASSERT(where >= 0 && m4ri_mmc_cache[where].size == have, "the freed block is cached with its size");
  VASSERT(changed == 1, "exactly one slot changes");
  if (nfree > 0) VASSERT(sz[where] == 0, "a free slot is used when there is one");
  /* an evicted block was released: CBMC's deallocated-pointer check covers later use; here: every
   * block still referenced by the cache is live and distinct */
  for (int i = 0; i < NB; ++i)
    for (int k = i + 1; k < NB; ++k)
      VASSERT(m4ri_mmc_cache[i].size == 0 || m4ri_mmc_cache[k].size == 0 || m4ri_mmc_cache[i].data != m4ri_mmc_cache[k].data, "no block cached twice");
#endif
  /* cleanup leaves nothing behind (leak check is on for this harness) */
  m4ri_mmc_cleanup();
  for (int i = 0; i < NB; ++i) VASSERT(m4ri_mmc_cache[i].size == 0, "cleanup empties every slot");
#if STEP == 0
  free(r);
#endif
  VDONE();
}
#endif

#if defined(H_HIST)
/* scripted history: SCRIPT is a string over
 *   'a','b','c' : mzd_init of shape class a (2x64), b (2x64 again: same byte size as a), c (3x130)
 *   'z'         : mzd_init(0, 5) zero-area;  'd' 4x512, 'e' 2x1024 (256-byte blocks)
 *   'w'         : window into the most recent live non-window matrix
 *   '0'..'9'    : free the live object with that creation index
 * every fresh matrix must be all zero, is then filled with symbolic canaries; after every step all
 * live owned matrices still hold their canaries; at the end everything is freed, the cache emptied
 * (m4ri_mmc_cleanup) and CBMC's leak check must be clean. */
#include <m4ri/mmc.h>
#define MAXOBJ 12
static mzd_t *obj[MAXOBJ];
static int is_win[MAXOBJ], live[MAXOBJ];
static word can[MAXOBJ][40];
static int nobj = 0;
static int fresh_is_zero(mzd_t const *M) {
  word d = 0;
  for (rci_t i = 0; i < M->nrows; ++i) for (wi_t j = 0; j < M->rowstride; ++j) d |= mzd_row_const(M, i)[j];
  return d == 0;
}
static void put_canary(int k) {
  mzd_t *M = obj[k];
  int t = 0;
  for (rci_t i = 0; i < M->nrows; ++i) for (wi_t j = 0; j < M->width; ++j) { word v = vin_word(); if (j == M->width - 1) v &= M->high_bitmask; mzd_row(M, i)[j] = v; can[k][t++] = v; }
}
static int canary_ok(int k) {
  mzd_t *M = obj[k];
  int t = 0; word d = 0;
  for (rci_t i = 0; i < M->nrows; ++i) for (wi_t j = 0; j < M->width; ++j) d |= mzd_row_const(M, i)[j] ^ can[k][t++];
  return d == 0;
}
static void all_canaries(void) {
  for (int k = 0; k < nobj; ++k) if (live[k] && !is_win[k]) VASSERT(canary_ok(k), "live matrix intact");
}
void harness(void) {
  char const script[] = SCRIPT;
  int lastowned = -1;
  for (unsigned s = 0; s + 1 < sizeof(script); ++s) {
    char op = script[s];
    if (op == 'a' || op == 'b' || op == 'c' || op == 'z' || op == 'd' || op == 'e') {
      /* 'd': 4x512 = 256 bytes (== block-cache threshold when L3 = 256), 'e': 4x448 + pad = 224..256 */
      mzd_t *M = (op == 'c') ? mzd_init(3, 130) : (op == 'z' ? mzd_init(0, 5) : (op == 'd' ? mzd_init(4, 512) : (op == 'e' ? mzd_init(2, 1024) : mzd_init(2, 64))));
      VASSERT(M != NULL, "init returns a header");
      for (int k = 0; k < nobj; ++k) if (live[k]) {
        VASSERT(obj[k] != M, "fresh header differs from every live header");
        if (!is_win[k] && obj[k]->data && M->data) VASSERT(!__CPROVER_same_object(obj[k]->data, M->data), "fresh storage shares nothing with a live matrix");
      }
      VASSERT(fresh_is_zero(M), "fresh matrix is entirely zero");
      obj[nobj] = M; is_win[nobj] = 0; live[nobj] = 1;
      if (op != 'z') { put_canary(nobj); lastowned = nobj; }
      nobj++;
    } else if (op == 'w') {
      mzd_t *P = obj[lastowned];
      mzd_t *W = mzd_init_window(P, 0, 0, P->nrows, P->ncols);
      for (int k = 0; k < nobj; ++k) if (live[k]) VASSERT(obj[k] != W, "fresh header differs from every live header");
      obj[nobj] = W; is_win[nobj] = 1; live[nobj] = 1; nobj++;
    } else {
      int k = op - '0';
      mzd_free(obj[k]); live[k] = 0;
    }
    all_canaries();
  }
  for (int k = nobj - 1; k >= 0; --k) if (live[k] && is_win[k]) { mzd_free(obj[k]); live[k] = 0; }
  all_canaries(); /* freeing views never frees or damages parent storage */
  for (int k = 0; k < nobj; ++k) if (live[k]) { mzd_free(obj[k]); live[k] = 0; }
  m4ri_mmc_cleanup();
  VDONE();
}
#endif
