/* C01 -- multiplication routes against the textbook product.
 * Layout macros: MM x LL times LL x NN.  ROUTE selects the entry point, KPAR / CUTOFF its parameter.
 * Input modes (DESIGN 2.4): every word of A and B is symbolic unless a symbolic region is given:
 *   A_SYM_R0,A_SYM_R1,A_SYM_W0,A_SYM_W1 : rows [R0,R1) x words [W0,W1) of A symbolic, rest concrete
 *   (pseudo-random from VSEED, pattern APAT); same for B. CMODE 0: C == NULL, 1: supplied dirty.
 */
#include "verif.h"
#define WORDS(c) (((c) + 63) / 64)

#ifndef VSEED
#define VSEED 1
#endif
#ifndef KPAR
#define KPAR 0
#endif
#ifndef CUTOFF
#define CUTOFF 0
#endif
#ifndef CMODE
#define CMODE 0
#endif
#ifndef KINIT
#define KINIT 8
#endif

#ifndef A_SYM_R0
#define A_SYM_R0 0
#define A_SYM_R1 MM
#define A_SYM_W0 0
#define A_SYM_W1 WORDS(LL)
#endif
#ifndef B_SYM_R0
#define B_SYM_R0 0
#define B_SYM_R1 LL
#define B_SYM_W0 0
#define B_SYM_W1 WORDS(NN)
#endif
#ifndef APAT
#define APAT 0
#endif
#ifndef BPAT
#define BPAT 0
#endif

void harness(void) {
  enum { WA = WORDS(LL), WB = WORDS(NN), RSA = (WA & 1) ? WA + 1 : WA, RSB = (WB & 1) ? WB + 1 : WB };
  vlcg_seed(VSEED);
  verif_init(KINIT);
  mzd_t *A = vop_raw(MM, LL, 0, 0);
  vfill_mixed(A, APAT, A_SYM_R0, A_SYM_R1, A_SYM_W0, A_SYM_W1);
#ifdef SQUARE
  mzd_t *B = A; /* same object: squaring dispatch */
#else
  mzd_t *B = vop_raw(LL, NN, 1, 0);
  vfill_mixed(B, BPAT, B_SYM_R0, B_SYM_R1, B_SYM_W0, B_SYM_W1);
#endif
  static word a[MM * WA], b[LL * WB], c[MM * WB], sa[MM * RSA], sb[LL * RSB];
  ref_from_mzd(a, WA, A); ref_from_mzd(b, WB, B);
  vsnap(sa, A); vsnap(sb, B);
  mzd_t *C = NULL;
  int acc = (ROUTE == 1 || ROUTE == 3 || ROUTE == 5 || ROUTE == 7 || ROUTE == 11);
  if (CMODE == 1 || acc) { C = vop(MM, NN, 2); }
  if (C) ref_from_mzd(c, WB, C);
  mzd_t *R;
#if ROUTE == 0
  R = mzd_mul_naive(C, A, B);
#elif ROUTE == 1
  R = mzd_addmul_naive(C, A, B);
#elif ROUTE == 2
  if (!C) C = vop_raw(MM, NN, 2, 0);
  R = _mzd_mul_va(C, A, B, 1);
#elif ROUTE == 3
  R = _mzd_mul_va(C, A, B, 0);
#elif ROUTE == 4
  R = mzd_mul_m4rm(C, A, B, KPAR);
#elif ROUTE == 5
  R = mzd_addmul_m4rm(C, A, B, KPAR);
#elif ROUTE == 6
  R = mzd_mul(C, A, B, CUTOFF);
#elif ROUTE == 7
  R = mzd_addmul(C, A, B, CUTOFF);
#elif ROUTE == 10
  R = mzd_mul_mp(C, A, B, CUTOFF);
#elif ROUTE == 11
  R = mzd_addmul_mp(C, A, B, CUTOFF);
#endif
  VASSERT(C == NULL || R == C, "returns the supplied destination");
  VASSERT(R->nrows == MM && R->ncols == NN, "result dims");
  ref_mul(c, a, MM, LL, WA, b, WB, acc);
  VASSERT(ref_eq_mzd(c, WB, R, VOWNED(R)), "C == A*B (accumulate routes: C0 + A*B), padding zero");
  VASSERT(vsnap_same(sa, A), "A unchanged");
  VASSERT(vsnap_same(sb, B), "B unchanged");
  VFRAMES();
  VDONE();
}
