/* C01 (Strassen-Winograd routes) -- index-level, modular check with SYMBOLIC dimensions and cutoff
 * (DESIGN F22).  strassen.c is compiled a second time with its entry points renamed to L1_*; every call
 * leaving one level (recursive / mutual calls, base products, additions, windows, allocation) is
 * redirected to a contract stub that ASSERTS the callee's precondition on data-less headers:
 *   windows: word aligned, non-empty, inside the parent;  mzd_init: positive dimensions;
 *   _mzd_add: three operands of equal non-empty shape;  products (recursive or base): conforming,
 *   non-empty operands, destination of the product's shape.
 * One level checked under the hypothesis that deeper levels satisfy the same contract covers every
 * recursion depth.  FUNC selects the level-1 body: 0 _mzd_mul_even 1 _mzd_sqr_even 2 _mzd_addmul_even
 * 3 _mzd_addsqr_even 4 mzd_mul (wrapper incl. cutoff rounding) 5 mzd_addmul. */
#include "verif.h"

static mzd_t hA, hB, hC;
static void mkhdr(mzd_t *M, int r, int c, int win) {
  M->nrows = r; M->ncols = c; M->width = (c + 63) / 64; M->rowstride = (M->width & 1) ? M->width + 1 : M->width;
  M->high_bitmask = 0; M->flags = win ? mzd_flag_windowed : 0; M->data = NULL;
}
mzd_t *L1__mzd_mul_even(mzd_t *C, mzd_t const *A, mzd_t const *B, int cutoff);
mzd_t *L1__mzd_sqr_even(mzd_t *C, mzd_t const *A, int cutoff);
mzd_t *L1__mzd_addmul_even(mzd_t *C, mzd_t const *A, mzd_t const *B, int cutoff);
mzd_t *L1__mzd_addsqr_even(mzd_t *C, mzd_t const *A, int cutoff);
mzd_t *L1_mzd_mul(mzd_t *C, mzd_t const *A, mzd_t const *B, int cutoff);
mzd_t *L1_mzd_addmul(mzd_t *C, mzd_t const *A, mzd_t const *B, int cutoff);

void harness(void) {
  int m = vin_range(1, MAXDIM), k = vin_range(1, MAXDIM), n = vin_range(1, MAXDIM);
#if FUNC == 1 || FUNC == 3
  k = m; n = m;
#endif
  mkhdr(&hA, m, k, 0); mkhdr(&hB, k, n, 0); mkhdr(&hC, m, n, 0);
#if FUNC <= 3
  int cutoff = 64 * vin_range(1, 9); /* what the public wrappers hand down: a positive multiple of 64 */
#else
  int cutoff = vin_range(0, 600);    /* public wrappers accept any cutoff >= 0 */
#endif
  /* calls through pointers so that --replace-calls leaves them alone */
  mzd_t *(*f3)(mzd_t *, mzd_t const *, mzd_t const *, int);
  mzd_t *(*f2)(mzd_t *, mzd_t const *, int);
#if FUNC == 0
  f3 = L1__mzd_mul_even; f3(&hC, &hA, &hB, cutoff);
#elif FUNC == 1
  f2 = L1__mzd_sqr_even; f2(&hC, &hA, cutoff);
#elif FUNC == 2
  f3 = L1__mzd_addmul_even; f3(&hC, &hA, &hB, cutoff);
#elif FUNC == 3
  f2 = L1__mzd_addsqr_even; f2(&hC, &hA, cutoff);
#elif FUNC == 4
  f3 = L1_mzd_mul; f3(&hC, &hA, &hB, cutoff);
#elif FUNC == 5
  f3 = L1_mzd_addmul; f3(&hC, &hA, &hB, cutoff);
#endif
  (void)f2; (void)f3;
  VDONE();
}
