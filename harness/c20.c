/* C20 -- allocation failure.  Run with CBMC --malloc-may-fail --malloc-fail-null: EVERY allocation of
 * the scenario may return NULL (all fault positions and combinations in one query).  Pointer checks
 * on.  m4ri_die stub = controlled abort (path ends).  If the scenario returns normally, its results
 * must be complete objects. Data concrete (the property is about control). */
#include "verif.h"
#include <m4ri/djb.h>
struct heap;
void heap_push(struct heap *h, rci_t value, const mzd_t *A);
void heap_pop(struct heap *h, const mzd_t *A);
#ifndef VSEED
#define VSEED 1
#endif
static mzd_t *cm(int r, int c) { mzd_t *M = mzd_init(r, c); vfill_mixed(M, 0, 0, 0, 0, 0); return M; }
#define OKM(M) VASSERT((M) != NULL && ((M)->data != NULL || (M)->nrows == 0 || (M)->ncols == 0), "returned matrix is a complete object")

void harness(void) {
  verif_die_expected = 1;
  vlcg_seed(VSEED);
  verif_init(4); /* not part of the scenario: code books exist before any call (library constructor) */
#if SCEN == 0 /* create + window + free */
  mzd_t *A = mzd_init(3, 70); OKM(A);
  mzd_t *W = mzd_init_window(A, 1, 64, 3, 70); VASSERT(W != NULL && W->data != NULL, "window complete");
  mzd_free(W); mzd_free(A);
#elif SCEN == 1 /* header pool exhaustion: 64 live headers, the next one needs a new pool block (config def) */
  mzd_t *A = mzd_init(2, 64); OKM(A);
  mzd_t *w[66];
  for (int i = 0; i < 66; ++i) { w[i] = mzd_init_window(A, 0, 0, 2, 64); VASSERT(w[i] != NULL && w[i]->data == A->data, "window complete"); }
#elif SCEN == 2 /* naive product, transposes internally */
  mzd_t *A = cm(3, 5), *B = cm(5, 3); mzd_t *C = mzd_mul_naive(NULL, A, B); OKM(C);
  mzd_t *D = mzd_addmul_naive(C, A, B); OKM(D);
#elif SCEN == 3 /* M4RM */
  mzd_t *A = cm(16, 9), *B = cm(9, 54); mzd_t *C = mzd_mul_m4rm(NULL, A, B, 2); OKM(C);
  C = mzd_addmul_m4rm(C, A, B, 0); OKM(C);
#elif SCEN == 4 /* Strassen front end (base case at this size) incl. window copy-in/out */
  mzd_t *A = cm(16, 9), *B = cm(9, 54); mzd_t *C = mzd_mul(NULL, A, B, 64); OKM(C);
  mzd_t *P = mzd_init(18, 130); mzd_t *CW = mzd_init_window(P, 1, 64, 17, 118);
  mzd_addmul(CW, A, B, 0);
#elif SCEN == 5 /* eliminate */
  mzd_t *A = cm(6, 70); rci_t r = mzd_echelonize_m4ri(A, 1, 0); VASSERT(r >= 0 && r <= 6, "rank");
  mzd_t *B = cm(6, 70); r = mzd_echelonize_pluq(B, 1); VASSERT(r >= 0 && r <= 6, "rank");
  mzd_t *C = cm(4, 5); r = mzd_echelonize_naive(C, 1);
#elif SCEN == 6 /* factor */
  mzd_t *A = cm(6, 70); mzp_t *P = mzp_init(6), *Q = mzp_init(70);
  VASSERT(P != NULL && P->values != NULL && Q != NULL && Q->values != NULL, "permutations complete");
  rci_t r = mzd_pluq(A, P, Q, 0); VASSERT(r >= 0 && r <= 6, "rank");
  mzd_t *B = cm(5, 66); mzp_t *P2 = mzp_init(5), *Q2 = mzp_init(66); r = mzd_ple(B, P2, Q2, 0);
#elif SCEN == 7 /* invert */
  mzd_t *A = mzd_init(5, 5); mzd_set_ui(A, 1); mzd_write_bit(A, 0, 3, 1);
  mzd_t *B = mzd_inv_m4ri(NULL, A, 0); OKM(B);
  mzd_t *I = mzd_init(5, 5); mzd_set_ui(I, 1);
  mzd_t *C = mzd_invert_naive(NULL, A, I); OKM(C);
  mzd_t *U = mzd_init(5, 5); mzd_set_ui(U, 1); mzd_write_bit(U, 1, 4, 1); mzd_trtri_upper(U);
#elif SCEN == 8 /* solve + kernel */
  mzd_t *A = cm(4, 6); mzd_t *B = cm(6, 3);
  int rc = mzd_solve_left(A, B, 0, 1); VASSERT(rc == 0 || rc == -1, "verdict");
  mzd_t *A2 = cm(4, 70); mzd_t *K = mzd_kernel_left_pluq(A2, 0); if (K) OKM(K);
#elif SCEN == 9 /* transpose, copy, submatrix, concat, stack, permutations */
  mzd_t *A = cm(5, 70); mzd_t *T = mzd_transpose(NULL, A); OKM(T);
  mzd_t *W = mzd_init_window(T, 1, 0, 69, 5); mzd_t *T2 = mzd_transpose(W, A);
  mzd_t *C = mzd_copy(NULL, A); OKM(C);
  mzd_t *S = mzd_submatrix(NULL, A, 1, 3, 4, 69); OKM(S);
  mzd_t *CC = mzd_concat(NULL, A, A); OKM(CC);
  mzd_t *ST = mzd_stack(NULL, A, A); OKM(ST);
  mzp_t *P = mzp_init(70); VASSERT(P && P->values, "perm");
  P->values[2] = 66; mzd_apply_p_right(A, P); mzd_apply_p_right_trans(A, P); mzd_apply_p_left(T, P);
  mzp_t *PW = mzp_init_window(P, 3, 10); VASSERT(PW && PW->values, "perm window"); mzp_t *PC = mzp_copy(NULL, P); VASSERT(PC && PC->values, "perm copy");
#elif SCEN == 10 /* DJB compile: >= 65 operations so that djb_push_back grows its arrays; heap growth */
  mzd_t *A = cm(16, 16); djb_t *z = djb_compile(A);
  VASSERT(z != NULL && z->target != NULL && z->source != NULL && z->srctyp != NULL, "compiled map complete");
  VASSERT(z->length > 64, "scenario reaches the growth path of djb_push_back");
  mzd_t *V = cm(16, 70), *W = mzd_init(16, 70); djb_apply_mzd(z, W, V);
#elif SCEN == 11 /* DJB small (no growth): every site of heap_init / djb_init */
  mzd_t *A = cm(3, 3); djb_t *z = djb_compile(A);
  VASSERT(z != NULL && z->target != NULL && z->source != NULL && z->srctyp != NULL, "compiled map complete");
#elif SCEN == 13 /* DJB operation queue growth in isolation: 70 pushes cross the 64-entry chunk boundary */
  djb_t *z = djb_init(4, 4);
  VASSERT(z != NULL && z->target != NULL && z->source != NULL && z->srctyp != NULL, "map complete");
  for (int i = 0; i < 70; ++i) djb_push_back(z, i % 4, (i / 4) % 4, source_source);
  VASSERT(z->length == 70 && z->target != NULL && z->source != NULL && z->srctyp != NULL, "queue complete after growth");
#elif SCEN == 14 /* heap of the DJB compiler in isolation: init + growth (4 -> 8 entries) + shrink */
  mzd_t *A = cm(9, 9);
  extern struct heap *heap_init(void);
  struct heap *h = heap_init();
  for (int i = 0; i < 9; ++i) heap_push(h, i, A);
  for (int i = 0; i < 8; ++i) heap_pop(h, A);
#elif SCEN == 15 /* heap of the DJB compiler: allocation of the heap itself */
  extern struct heap *heap_init(void);
  extern void heap_free(struct heap *h);
  struct heap *h = heap_init();
  VASSERT(h != NULL, "heap complete");
  heap_free(h);
#elif SCEN == 12 /* mzd_from_str, randomize, density helpers */
  mzd_t *A = mzd_from_str(2, 3, "101011"); OKM(A);
#endif
  VDONE();
}
