/* C11 -- memory safety / UB scenarios that are not already run with all checks by another property's
 * plan: complete call sequences that free everything they allocate (CBMC --memory-leak-check), and
 * the checked public wrappers called with incompatible dimensions on header-only operands (any touch
 * of operand data is a NULL dereference; the call must end in m4ri_die). */
#include "verif.h"
#ifndef VSEED
#define VSEED 1
#endif

#if defined(H_LEAK)
static mzd_t *sm(int r, int c) { mzd_t *M = mzd_init(r, c); vfill(M); return M; }
void harness(void) {
  verif_init(8);
#if SCEN == 0 /* solve: every verdict, incl. the early "inconsistent padding" return */
  mzd_t *A = mzd_init(2, 3); vlcg_seed(VSEED); vfill_mixed(A, 0, 0, 0, 0, 0);
  mzd_t *B = sm(3, 2);
  int rc = mzd_solve_left(A, B, 0, 1);
  (void)rc;
  mzd_free(A); mzd_free(B);
#elif SCEN == 1 /* products */
  mzd_t *A = sm(3, 5), *B = sm(5, 70);
  mzd_t *C = mzd_mul_naive(NULL, A, B); mzd_addmul_naive(C, A, B);
  mzd_t *D = mzd_mul(NULL, A, B, 0); mzd_addmul(D, A, B, 64);
  mzd_free(A); mzd_free(B); mzd_free(C); mzd_free(D);
#elif SCEN == 2 /* M4RM */
  mzd_t *A = mzd_init(16, 3), *B = sm(3, 54); vlcg_seed(VSEED); vfill_mixed(A, 0, 0, 0, 0, 0);
  mzd_t *C = mzd_mul_m4rm(NULL, A, B, 2); mzd_addmul_m4rm(C, A, B, 0);
  mzd_free(A); mzd_free(B); mzd_free(C);
#elif SCEN == 3 /* elimination + factorisation on concrete control, symbolic passive word */
  mzd_t *A = mzd_init(4, 70); vlcg_seed(VSEED); vfill_mixed(A, 0, 0, 3, 1, 2);
  mzd_t *B = mzd_copy(NULL, A), *C = mzd_copy(NULL, A);
  mzd_echelonize_m4ri(A, 1, 0); mzd_echelonize_pluq(B, 1);
  mzp_t *P = mzp_init(4), *Q = mzp_init(70); mzd_ple(C, P, Q, 0);
  mzp_free(P); mzp_free(Q); mzd_free(A); mzd_free(B); mzd_free(C);
#elif SCEN == 4 /* kernel + inversion + trtri */
  mzd_t *A = mzd_init(3, 70); vlcg_seed(VSEED); vfill_mixed(A, 0, 0, 2, 1, 2);
  mzd_t *K = mzd_kernel_left_pluq(A, 0); if (K) mzd_free(K);
  mzd_t *I = mzd_init(4, 4); mzd_set_ui(I, 1); mzd_write_bit(I, 0, 2, 1);
  mzd_t *J = mzd_inv_m4ri(NULL, I, 0); mzd_trtri_upper(I);
  mzd_free(A); mzd_free(I); mzd_free(J);
#elif SCEN == 5 /* data movement with windows */
  mzd_t *A = sm(4, 130);
  mzd_t *W = mzd_init_window(A, 1, 64, 3, 130);
  mzd_t *T = mzd_transpose(NULL, W); mzd_t *S = mzd_submatrix(NULL, A, 0, 3, 4, 77);
  mzd_t *C = mzd_concat(NULL, S, S); mzd_t *K = mzd_stack(NULL, S, S); mzd_t *U = mzd_extract_u(NULL, A);
  mzp_t *P = mzp_init(130); P->values[3] = 100; mzd_apply_p_right(A, P); mzd_apply_p_right_trans(A, P);
  mzp_free(P); mzd_free(W); mzd_free(T); mzd_free(S); mzd_free(C); mzd_free(K); mzd_free(U); mzd_free(A);
#elif SCEN == 6 /* TRSM all four */
  mzd_t *T = sm(5, 5); for (int i = 0; i < 5; ++i) mzd_write_bit(T, i, i, 1);
  mzd_t *B = sm(5, 70), *C = sm(3, 5);
  mzd_trsm_lower_left(T, B, 0); mzd_trsm_upper_left(T, B, 0); mzd_trsm_upper_right(T, C, 0); mzd_trsm_lower_right(T, C, 0);
  mzd_free(T); mzd_free(B); mzd_free(C);
#endif
  for (int k = 1; k <= 8; ++k) { free(m4ri_codebook[k]->inc); free(m4ri_codebook[k]->ord); free(m4ri_codebook[k]); }
  free(m4ri_codebook);
  VDONE();
}
#endif

#if defined(H_BADDIMS)
/* header-only operands: dimensions symbolic, data == NULL */
static mzd_t hdr[4];
static mzd_t *H(int k, int r, int c) {
  mzd_t *M = &hdr[k];
  M->nrows = r; M->ncols = c; M->width = (c + 63) / 64; M->rowstride = (M->width & 1) ? M->width + 1 : M->width;
  M->high_bitmask = (c % 64) ? ((~(word)0) >> (64 - c % 64)) : ~(word)0;
  M->flags = (c % 64) ? mzd_flag_nonzero_excess : 0;
  M->data = NULL;
  return M;
}
void harness(void) {
  verif_die_expected = 1;
  int m = vin_range(1, 300), l = vin_range(1, 300), l2 = vin_range(1, 300), n = vin_range(1, 300), cr = vin_range(1, 300), cc = vin_range(1, 300);
#if WRAP <= 5 /* products: A m x l, B l2 x n, C cr x cc with (l != l2) or (C wrong) */
  VASSUME(l != l2 || cr != m || cc != n);
  mzd_t *A = H(0, m, l), *B = H(1, l2, n), *C = H(2, cr, cc);
  int cut = vin_range(0, 1000), k = vin_range(0, 10);
#if WRAP == 0
  mzd_mul(C, A, B, cut);
#elif WRAP == 1
  mzd_addmul(C, A, B, cut);
#elif WRAP == 2
  mzd_mul_m4rm(C, A, B, k);
#elif WRAP == 3
  VASSUME(cr > 0 && cc > 0); mzd_addmul_m4rm(C, A, B, k);
#elif WRAP == 4
  VASSUME(l == l2); mzd_mul_naive(C, A, B);
#elif WRAP == 5
  VASSUME(l == l2); mzd_addmul_naive(C, A, B);
#endif
#elif WRAP <= 9 /* TRSM: T m x l, B cr x cc */
  mzd_t *T = H(0, m, l), *B = H(1, cr, cc);
#if WRAP == 6
  VASSUME(m != l || l != cr); mzd_trsm_lower_left(T, B, 0);
#elif WRAP == 7
  VASSUME(m != l || l != cr); mzd_trsm_upper_left(T, B, 0);
#elif WRAP == 8
  VASSUME(m != l || m != cc); mzd_trsm_upper_right(T, B, 0);
#elif WRAP == 9
  VASSUME(m != l || m != cc); mzd_trsm_lower_right(T, B, 0);
#endif
#elif WRAP == 10 /* add */
  VASSUME(m != cr || l != cc); mzd_add(NULL, H(0, m, l), H(1, cr, cc));
#elif WRAP == 11
  VASSUME(cr != m || cc != l); mzd_add(H(2, cr, cc), H(0, m, l), H(1, m, l));
#elif WRAP == 12 /* transpose into a wrong-sized destination */
  VASSUME(cr != l || cc != m); mzd_transpose(H(2, cr, cc), H(0, m, l));
#elif WRAP == 13 /* copy into a too small destination */
  VASSUME(cr < m || cc < l); mzd_copy(H(2, cr, cc), H(0, m, l));
#elif WRAP == 14
  VASSUME(m != cr); mzd_concat(NULL, H(0, m, l), H(1, cr, cc));
#elif WRAP == 15
  VASSUME(l != cc); mzd_stack(NULL, H(0, m, l), H(1, cr, cc));
#elif WRAP == 16 /* solve: B rows must be max(m, l) and >= l */
  VASSUME(cr != (m > l ? m : l)); mzd_solve_left(H(0, m, l), H(1, cr, cc), 0, 1);
#elif WRAP == 17 /* ple / pluq with wrong permutation lengths */
  { mzp_t P, Q; rci_t pv[1] = {0}; P.values = pv; Q.values = pv; P.length = vin_range(0, 300); Q.length = vin_range(0, 300);
    VASSUME(P.length != m || Q.length != l);
    if (vin_range(0, 1)) mzd_ple(H(0, m, l), &P, &Q, 0); else mzd_pluq(H(0, m, l), &P, &Q, 0); }
#elif WRAP == 18 /* submatrix into a too small S */
  { int r0 = vin_range(0, 10), c0 = vin_range(0, 10); VASSUME(r0 + cr <= m && c0 + cc <= l && (n < cr || l2 < cc));
    mzd_submatrix(H(2, n, l2), H(0, m, l), r0, c0, r0 + cr, c0 + cc); }
#endif
  VASSERT(0, "an ill-dimensioned call must end in the library's error handler, it returned instead");
}
#endif
