/* C16 (and C01 multi-core route) -- index-level check of the real _mzd_mul_mp4 / _mzd_addmul_mp4 bodies
 * with SYMBOLIC dimensions and cutoff (DESIGN F22).  Operands are data-less headers; every callee that
 * touches data is a contract stub (goto-instrument --replace-calls) which (1) asserts the callee's
 * precondition on the shapes it is handed and (2) records, in a ghost ledger over the block grid
 * {0,anr,2anr,m} x {0,anc,2anc,k} x {0,bnc,2bnc,n}, which product term A[I,K]*B[K,J] was written
 * (overwrite) or accumulated into which block C[I,J].  At the end: every non-empty C block received
 * every non-empty term exactly once, mul (non-accumulate) routes start each block from "cleared",
 * sections write pairwise disjoint blocks (=> the four OpenMP sections commute), windows are word
 * aligned and inside their parents.  The formula contains integers only. */
#include "verif.h"

/* ghost record around every header the stubs hand out (one heap object per call: no symbolic pool
 * index after the symbolic base-case branch) */
typedef struct { mzd_t hdr; int parent; /* 0 A, 1 B, 2 C, 3 temp */ int r0, c0, r1, c1; } win_t;
static mzd_t hA, hB, hC;
static int gm, gk, gn, gcut;

/* ledger */
static int term[3][3][3];   /* number of times A[I,K]*B[K,J] was added into C[I,J] */
static int started[3][3];   /* 0 untouched, 1 first op was overwrite/clear, 2 first op was accumulate */
static int rb[4], kb[4], cb[4]; /* grid boundaries */

static void mkhdr(mzd_t *M, int r, int c) {
  M->nrows = r; M->ncols = c; M->width = (c + 63) / 64; M->rowstride = (M->width & 1) ? M->width + 1 : M->width;
  M->high_bitmask = 0; M->flags = 0; M->data = NULL;
}
static win_t *find(mzd_t const *M) { return (win_t *)M; } /* hdr is the first member */
static win_t *newwin(void) {
  win_t *w = (win_t *)malloc(sizeof(win_t));
  __CPROVER_assume(w != NULL);
  return w;
}
/* absolute coordinates of an operand inside A / B / C */
static int coords(mzd_t const *M, int *parent, int *r0, int *c0, int *r1, int *c1) {
  if (M == &hA) { *parent = 0; *r0 = 0; *c0 = 0; *r1 = gm; *c1 = gk; return 1; }
  if (M == &hB) { *parent = 1; *r0 = 0; *c0 = 0; *r1 = gk; *c1 = gn; return 1; }
  if (M == &hC) { *parent = 2; *r0 = 0; *c0 = 0; *r1 = gm; *c1 = gn; return 1; }
  win_t *w = find(M);
  if (!w) return 0;
  *parent = w->parent; *r0 = w->r0; *c0 = w->c0; *r1 = w->r1; *c1 = w->c1;
  return 1;
}

/* ---- contract stubs ---- */
mzd_t *stub_init_window(mzd_t *M, rci_t lowr, rci_t lowc, rci_t highr, rci_t highc) {
  int p, r0, c0, r1, c1;
  VASSERT(coords(M, &p, &r0, &c0, &r1, &c1), "window of a known matrix");
  VASSERT(lowc % 64 == 0, "window column offset is word aligned");
  VASSERT(0 <= lowr && lowr < highr && highr <= M->nrows, "window rows non-empty and inside the parent");
  VASSERT(0 <= lowc && lowc < highc && highc <= M->ncols, "window columns non-empty and inside the parent");
  win_t *w = newwin();
  w->parent = p; w->r0 = r0 + lowr; w->c0 = c0 + lowc; w->r1 = r0 + highr; w->c1 = c0 + highc;
  mkhdr(&w->hdr, highr - lowr, highc - lowc);
  w->hdr.flags = mzd_flag_windowed;
  return &w->hdr;
}
mzd_t *stub_init(rci_t r, rci_t c) {
  VASSERT(r > 0 && c > 0, "temporary has positive dimensions");
  win_t *w = newwin();
  w->parent = 3; w->r0 = 0; w->c0 = 0; w->r1 = r; w->c1 = c;
  mkhdr(&w->hdr, r, c);
  return &w->hdr;
}
void stub_free(mzd_t *M) { (void)M; }

static int seg(int const *b, int lo, int hi, int *first, int *last) { /* [lo,hi) must be a union of grid segments */
  int ok = 0;
  *first = -1; *last = -1;
  for (int i = 0; i < 3; ++i) { if (b[i] == lo && *first < 0 && b[i + 1] > b[i]) *first = i; }
  for (int i = 0; i < 3; ++i) { if (b[i + 1] == hi && b[i + 1] > b[i]) *last = i; }
  /* empty leading segments: lo may coincide with several boundaries */
  if (*first < 0) for (int i = 0; i < 3; ++i) if (b[i] == lo && *first < 0) *first = i;
  ok = (*first >= 0 && *last >= *first);
  return ok;
}
/* C_w (op)= A_w * B_w, acc: 0 overwrite, 1 accumulate. tmp != NULL: result goes to a temporary (base case) */
static void record(mzd_t *Cw, mzd_t const *Aw, mzd_t const *Bw, int acc) {
  int pc, cr0, cc0, cr1, cc1, pa, ar0, ac0, ar1, ac1, pb, br0, bc0, br1, bc1;
  VASSERT(coords(Cw, &pc, &cr0, &cc0, &cr1, &cc1) && coords(Aw, &pa, &ar0, &ac0, &ar1, &ac1) && coords(Bw, &pb, &br0, &bc0, &br1, &bc1), "operands known");
  VASSERT(Aw->ncols == Bw->nrows && Cw->nrows == Aw->nrows && Cw->ncols == Bw->ncols, "product operands conform");
  VASSERT(Aw->nrows > 0 && Aw->ncols > 0 && Bw->ncols > 0, "product operands non-empty");
  VASSERT(pa == 0 && pb == 1, "factors are (windows of) A and B");
  VASSERT(ar0 == cr0 && ar1 == cr1 || pc == 3, "row range of C block == row range of A block");
  VASSERT(bc0 == cc0 && bc1 == cc1 || pc == 3, "column range of C block == column range of B block");
  VASSERT(ac0 == br0 && ac1 == br1, "inner ranges of A block and B block coincide");
  int i0, i1, j0, j1, k0, k1;
  VASSERT(seg(rb, ar0, ar1, &i0, &i1), "row range aligned to the block grid");
  VASSERT(seg(cb, bc0, bc1, &j0, &j1), "column range aligned to the block grid");
  VASSERT(seg(kb, ac0, ac1, &k0, &k1), "inner range aligned to the block grid");
  for (int I = 0; I < 3; ++I) for (int J = 0; J < 3; ++J) {
    if (I >= i0 && I <= i1 && J >= j0 && J <= j1 && rb[I + 1] > rb[I] && cb[J + 1] > cb[J]) {
      if (!acc) { /* overwrite: everything recorded so far in this block is lost */
        for (int K = 0; K < 3; ++K) term[I][J][K] = 0;
        started[I][J] = 1;
      } else if (started[I][J] == 0) started[I][J] = 2;
      for (int K = 0; K < 3; ++K) if (K >= k0 && K <= k1 && kb[K + 1] > kb[K]) term[I][J][K]++;
    }
  }
}
static mzd_t *tmp_target; static mzd_t const *tmp_a, *tmp_b; static int tmp_acc;
mzd_t *stub_mul_even(mzd_t *C, mzd_t const *A, mzd_t const *B, int cutoff) { VASSERT(cutoff >= 64 && cutoff % 64 == 0, "cutoff is a positive multiple of 64"); record(C, A, B, 0); return C; }
mzd_t *stub_addmul_even(mzd_t *C, mzd_t const *A, mzd_t const *B, int cutoff) { VASSERT(cutoff >= 64 && cutoff % 64 == 0, "cutoff is a positive multiple of 64"); record(C, A, B, 1); return C; }
mzd_t *stub_addmul_m4rm(mzd_t *C, mzd_t const *A, mzd_t const *B, int k) { (void)k; record(C, A, B, 1); return C; }
mzd_t *stub__mul_m4rm(mzd_t *C, mzd_t const *A, mzd_t const *B, int k, int clear) {
  (void)k;
  int pc, a, b, c, d;
  coords(C, &pc, &a, &b, &c, &d);
  if (pc == 3) { /* product into a fresh temporary (zeroed by mzd_init): remembered until it is copied out */
    VASSERT(C->nrows == A->nrows && C->ncols == B->ncols && A->ncols == B->nrows, "product operands conform");
    tmp_target = C; tmp_a = A; tmp_b = B; tmp_acc = 0;
  } else record(C, A, B, clear ? 0 : 1);
  return C;
}
mzd_t *stub_copy(mzd_t *N, mzd_t const *P) { /* copy-out of the base-case temporary */
  VASSERT(P == tmp_target, "only the temporary product is copied");
  VASSERT(N->nrows == P->nrows && N->ncols == P->ncols, "copy conforms");
  record(N, tmp_a, tmp_b, ACCUM); /* mul: C = temp ; addmul: handled by the real code via _mzd_add => see stub_add */
  return N;
}
mzd_t *stub_add(mzd_t *C, mzd_t const *X, mzd_t const *Y) { /* C = C + temp in the addmul base case */
  VASSERT((X == C && Y == tmp_target) || (Y == C && X == tmp_target), "base case adds the temporary product onto C");
  record(C, tmp_a, tmp_b, 1);
  return C;
}

mzd_t *_mzd_mul_mp4(mzd_t *C, mzd_t const *A, mzd_t const *B, int cutoff);
mzd_t *_mzd_addmul_mp4(mzd_t *C, mzd_t const *A, mzd_t const *B, int cutoff);

void harness(void) {
  gm = vin_range(1, MAXDIM); gk = vin_range(1, MAXDIM); gn = vin_range(1, MAXDIM);
  int cw = vin_range(1, 9);
  gcut = 64 * cw;
  mkhdr(&hA, gm, gk); mkhdr(&hB, gk, gn); mkhdr(&hC, gm, gn);
  /* the grid the routine is supposed to use (its own formulas are what is under test: these are the
   * boundaries ANY correct tiling into 2x2 quadrants + remainder strips induces; we take them from the
   * windows the routine creates: first window of each parent defines anr/anc/bnc) -- simpler and
   * independent: recompute from the documented rule "largest multiple of 128 below the dimension, halved" */
  int a = gm - gm % 128, b = gk - gk % 128, c = gn - gn % 128;
  int small = (3 * gm < 4 * gcut) || (3 * gk < 4 * gcut) || (3 * gn < 4 * gcut);
  int anr = small ? gm : a / 2, anc = small ? gk : b / 2, bnc = small ? gn : c / 2;
  rb[0] = 0; rb[1] = anr; rb[2] = small ? gm : 2 * anr; rb[3] = gm;
  kb[0] = 0; kb[1] = anc; kb[2] = small ? gk : 2 * anc; kb[3] = gk;
  cb[0] = 0; cb[1] = bnc; cb[2] = small ? gn : 2 * bnc; cb[3] = gn;
#if ACCUM
  _mzd_addmul_mp4(&hC, &hA, &hB, gcut);
#else
  _mzd_mul_mp4(&hC, &hA, &hB, gcut);
#endif
  for (int I = 0; I < 3; ++I) for (int J = 0; J < 3; ++J) {
    if (rb[I + 1] > rb[I] && cb[J + 1] > cb[J]) {
      for (int K = 0; K < 3; ++K) if (kb[K + 1] > kb[K])
        VASSERT(term[I][J][K] == 1, "every product term A[I,K]*B[K,J] reaches C[I,J] exactly once");
#if ACCUM
      VASSERT(started[I][J] == 2, "accumulate route never overwrites a block of C");
#else
      VASSERT(started[I][J] == 1, "multiply route starts every block of C from an overwrite / cleared state (prior contents of C must not leak)");
#endif
    }
  }
  VDONE();
}
