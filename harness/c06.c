/* C06 -- linear system solving.  A: MA x NA concrete (pattern APAT, seed VSEED, optional rank
 * deficiency), B: max(MA,NA) x NB fully symbolic (every right-hand side, consistent or not, incl.
 * the padding rows).  ROUTE 0: mzd_solve_left(A,B,CUTOFF,ICHECK)  1: _mzd_pluq + mzd_pluq_solve_left.
 * Oracle: reference elimination of [A_padded | B]: solvable <=> no pivot falls into the B columns. */
#include "verif.h"
#include "specla.h"
#define WORDS(c) (((c) + 63) / 64)
#ifndef VSEED
#define VSEED 1
#endif
#ifndef CUTOFF
#define CUTOFF 0
#endif
#ifndef ICHECK
#define ICHECK 1
#endif
#ifndef APAT
#define APAT 0
#endif
#ifndef KINIT
#define KINIT 8
#endif
#define MAXMN ((MA) > (NA) ? (MA) : (NA))

/* APAT: 0 random dense, 1 sparse, 2 zero matrix, 5 rank deficient (row i>=RDEF is the XOR of rows 0 and 1),
 *       6 identity-like */
#ifndef RDEF
#define RDEF MA
#endif
static void gen_A(mzd_t *A) {
  vlcg_seed(VSEED);
  for (int i = 0; i < MA; ++i) {
    word *row = mzd_row(A, i);
    for (int j = 0; j < A->width; ++j) {
      word v = vpat_word(APAT == 5 ? 0 : (APAT == 6 ? 4 : APAT), i, j);
      if (j == A->width - 1) v &= A->high_bitmask;
      row[j] = v;
    }
  }
  if (APAT == 5)
    for (int i = RDEF; i < MA; ++i)
      for (int j = 0; j < A->width; ++j) mzd_row(A, i)[j] = mzd_row(A, 0)[j] ^ (MA > 1 ? mzd_row(A, 1)[j] : 0);
}

void harness(void) {
  enum { WA = WORDS(NA), WB = WORDS(NB), WG = WA + WB };
  verif_init(KINIT);
  mzd_t *A = mzd_init(MA, NA);
  gen_A(A);
  mzd_t *B = vmat(MAXMN, NB);
  static word a0[MAXMN * WA], b0[MAXMN * WB], aug[MAXMN * WG], x[NA * WB], prod[MAXMN * WB];
  for (int i = 0; i < MAXMN * WA; ++i) a0[i] = 0; /* A padded with zero rows */
  ref_from_mzd(a0, WA, A);
  ref_from_mzd(b0, WB, B);
  for (int i = 0; i < MAXMN; ++i) {
    for (int j = 0; j < WA; ++j) aug[i * WG + j] = a0[i * WA + j];
    for (int j = 0; j < WB; ++j) aug[i * WG + WA + j] = b0[i * WB + j];
  }
  static spec_basis_t S;
  spec_basis(&S, aug, MAXMN, 64 * WG, WG);
  word incons = 0;
  for (int j = WA; j < WG; ++j) incons |= S.profile[j];
  int solvable = (incons == 0);
  int ret;
#if ROUTE == 0
  ret = mzd_solve_left(A, B, CUTOFF, ICHECK);
#else
  {
    mzp_t *P = mzp_init(MA), *Q = mzp_init(NA);
    rci_t r = _mzd_pluq(A, P, Q, CUTOFF);
    ret = mzd_pluq_solve_left(A, r, P, Q, B, CUTOFF, ICHECK);
  }
#endif
#if ICHECK
  VASSERT((ret == 0) == solvable, "returns 0 exactly when A*X = B (incl. padding rows) is solvable, -1 otherwise");
#else
  VASSERT(ret == 0, "without the inconsistency check the routine reports 0");
#endif
  if (ret == 0 && solvable) {
    for (int i = 0; i < NA; ++i)
      for (int j = 0; j < WB; ++j) { word v = mzd_row_const(B, i)[j]; if (j == WB - 1) v &= vmask(NB); x[i * WB + j] = v; }
    ref_mul(prod, a0, MAXMN, NA, WA, x, WB, 0);
    word d = 0;
    for (int i = 0; i < MAXMN * WB; ++i) d |= prod[i] ^ b0[i];
    VASSERT(d == 0, "A0 * X == B0 for the X left in the first n rows of B");
  }
  {
    word e = 0;
    for (int i = 0; i < MAXMN; ++i) e |= mzd_row_const(B, i)[WB - 1] & ~vmask(NB);
    VASSERT(e == 0, "padding of B stays zero");
  }
  VDONE();
}
