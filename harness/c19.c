/* C19 -- Gray code books and word-level bit kernels. One scenario per -DH_<name>. */
#include "verif.h"
#include <m4ri/parity.h>

static int popcount64(word x) {
  int c = 0;
  for (int i = 0; i < 64; ++i) c += (int)((x >> i) & 1);
  return c;
}

#if defined(H_CODE)
/* K concrete. ord is a permutation of [0,2^K), consecutive entries differ in one bit, inc[i] is the
 * index of that bit (in the table builder's convention: row r + inc[i-1] is added for entry i and
 * the looked-up pattern bit for row t is bit (K-1-t)?  -- asserted abstractly here: ord[i]^ord[i+1]
 * == 1 << (K-1-inc[i]); the link to the row convention is H_TABLE). */
void harness(void) {
  enum { N = 1 << K };
  static int ord[N], inc[N];
  for (int i = 0; i < N; ++i) { ord[i] = -1; inc[i] = -1; } /* sentinel: every entry must be written */
  m4ri_build_code(ord, inc, K);
  int i = vin_range(0, N - 1), j = vin_range(0, N - 1);
  VASSERT(ord[i] >= 0 && ord[i] < N, "ord[i] in range");
  VASSERT(i == j || ord[i] != ord[j], "ord injective");
  VASSERT(ord[0] == 0, "ord[0]==0");
  if (i < N - 1) {
    int d = ord[i] ^ ord[i + 1];
    VASSERT(d != 0 && (d & (d - 1)) == 0, "consecutive entries differ in exactly one bit");
    VASSERT(inc[i] >= 0 && inc[i] < K, "inc in range");
    VASSERT(d == (1 << inc[i]), "inc[i] names the differing bit");
  }
  VASSERT(m4ri_gray_code(i, K) == (i ^ (i >> 1)), "gray code closed form");
  VDONE();
}
#endif

#if defined(H_CODE_ENUM)
/* same statement, index enumerated by a concrete loop (k > 10: the symbolic-index formulation needs
 * > 8 GB). Everything is decided during symbolic execution by constant propagation over the real
 * m4ri_build_code; complete for the finite domain. */
void harness(void) {
  enum { N = 1 << K };
  static int ord[N], inc[N];
  static unsigned char seen[N];
  for (int i = 0; i < N; ++i) { ord[i] = -1; inc[i] = -1; }
  m4ri_build_code(ord, inc, K);
  for (int i = 0; i < N; ++i) {
    VASSERT(ord[i] >= 0 && ord[i] < N, "ord[i] in range");
    VASSERT(!seen[ord[i]], "ord injective");
    seen[ord[i]] = 1;
    if (i < N - 1) {
      int d = ord[i] ^ ord[i + 1];
      VASSERT(d != 0 && (d & (d - 1)) == 0, "consecutive entries differ in exactly one bit");
      VASSERT(inc[i] >= 0 && inc[i] < K, "inc in range");
      VASSERT(d == (1 << inc[i]), "inc[i] names the differing bit");
    }
  }
  VASSERT(ord[0] == 0, "ord[0]==0");
  VDONE();
}
#endif

#if defined(H_PARITY)
/* convention used by the only consumer (_mzd_mul_naive / _mzd_mul_va): parity of buf[i] lands in
 * the bit that read-back as column (base + i), i.e. bit i */
#define PBIT(i) (i)
void harness(void) {
  word buf[64];
  for (int i = 0; i < 64; ++i) buf[i] = vin_word();
  word r = m4ri_parity64(buf);
  /* reference: parity of buf[i] in bit i -- which bit? the library's convention is asserted as the
   * one _mzd_mul_naive relies on: bit (63 - i)?  Determined by H_PARITYCONV; here all 64 bits are
   * compared with a folded reference under the convention PCONV(i). */
  word ref = 0;
  for (int i = 0; i < 64; ++i) {
    word x = buf[i];
    x ^= x >> 32; x ^= x >> 16; x ^= x >> 8; x ^= x >> 4; x ^= x >> 2; x ^= x >> 1;
    ref |= (x & 1) << PBIT(i);
  }
  VASSERT(r == ref, "parity64: bit i is the parity of word i");
  VDONE();
}
#endif

#if defined(H_MASKS)
void harness(void) {
  int n = vin_range(0, 64);
  word l = __M4RI_LEFT_BITMASK(n);
  /* documented: (n-1)%64+1 lowest bits set; n in [0,64]; n==0 gives all ones */
  int cnt = (n == 0) ? 64 : n;
  word refl = (cnt == 64) ? ~(word)0 : (((word)1 << cnt) - 1);
  VASSERT(l == refl, "LEFT_BITMASK");
  int m = vin_range(1, 64);
  word r = __M4RI_RIGHT_BITMASK(m);
  word refr = (m == 64) ? ~(word)0 : ~(((word)1 << (64 - m)) - 1);
  VASSERT(r == refr, "RIGHT_BITMASK");
  int off = vin_range(0, 63);
  int nn = vin_range(1, 64);
  VASSUME(nn <= 64 - off);
  word mid = __M4RI_MIDDLE_BITMASK(nn, off);
  word refm = 0;
  for (int i = 0; i < 64; ++i) if (i >= off && i < off + nn) refm |= (word)1 << i;
  VASSERT(mid == refm, "MIDDLE_BITMASK");
  VASSERT(popcount64(mid) == nn, "MIDDLE_BITMASK popcount");
  VDONE();
}
#endif

#if defined(H_SWAPBITS)
void harness(void) {
  word v = vin_word();
  word r = m4ri_swap_bits(v);
  word ref = 0;
  for (int i = 0; i < 64; ++i) ref |= ((v >> i) & 1) << (63 - i);
  VASSERT(r == ref, "swap_bits reverses");
  VASSERT(m4ri_swap_bits(r) == v, "swap_bits involution");
  VDONE();
}
#endif

#if defined(H_SPREAD)
/* LEN concrete 1..16; Q strictly increasing positions with Q[i]-base in [i,63]; */
void harness(void) {
  rci_t Q[16];
  int base = vin_range(0, 1000);
  for (int i = 0; i < 16; ++i) Q[i] = vin_range(0, 2000);
  for (int i = 0; i < LEN; ++i) {
    VASSUME(Q[i] - base >= i && Q[i] - base <= 63);
    if (i > 0) VASSUME(Q[i] > Q[i - 1]);
  }
  word from = vin_word();
  word lowmask = (LEN == 64) ? ~(word)0 : (((word)1 << LEN) - 1);
  word sp = m4ri_spread_bits(from, Q, LEN, base);
  word ref = 0;
  for (int i = 0; i < LEN; ++i) ref |= ((from >> i) & 1) << (Q[i] - base);
  VASSERT(sp == ref, "spread places bit i at Q[i]-base");
  VASSERT(m4ri_shrink_bits(sp, Q, LEN, base) == (from & lowmask), "shrink(spread(x)) == x");
  word any = vin_word();
  word sh = m4ri_shrink_bits(any, Q, LEN, base);
  word ref2 = 0;
  for (int i = 0; i < LEN; ++i) ref2 |= ((any >> (Q[i] - base)) & 1) << i;
  VASSERT(sh == ref2, "shrink gathers bit Q[i]-base into bit i");
  word selm = 0;
  for (int i = 0; i < LEN; ++i) selm |= (word)1 << (Q[i] - base);
  VASSERT(m4ri_spread_bits(sh, Q, LEN, base) == (any & selm), "spread(shrink(y)) == y on selected bits");
  VDONE();
}
#endif

#if defined(H_LSB)
void harness(void) {
  word a = vin_word(), b = vin_word();
  int la = 64, lb = 64;
  for (int i = 63; i >= 0; --i) { if ((a >> i) & 1) la = i; if ((b >> i) & 1) lb = i; }
  VASSERT(m4ri_lesser_LSB(a, b) == (la < lb), "lesser_LSB definition");
  VDONE();
}
#endif

#if defined(H_TABLE)
/* mzd_make_table on M (NR x NC), rows r.., column c, k: T[L[x]] = XOR of rows r+t with bit
 * (x >> (k-1-t))?  The convention is fixed by how the tables are consulted:
 * x = mzd_read_bits(M, row, c, k) i.e. bit t of x is column c+t. For a table built from rows
 * r..r+k-1 whose k x k block at column c is the identity, T[L[x]] must clear exactly pattern x. We
 * assert the general linear statement: T[L[x]] == XOR_{t<k, r+t<NR} bit_t'(x) * row(r+t) masked to
 * columns >= c, where t' is the convention; we assert it with t' = t (bit t selects row r+t). */
void harness(void) {
  verif_init(KK);
  mzd_t *M = vmat(NR, NC);
  mzd_t *T = mzd_init(1 << KK, NC);
  /* the library allocates T with mzd_init (zeroed) once and rebuilds it per block: rows 1.. may
   * hold a previous table, row 0 is never written and relies on being zero */
  for (rci_t i = 1; i < T->nrows; ++i) { word *row = mzd_row(T, i); for (wi_t j = 0; j < T->width; ++j) row[j] = vin_word(); }
  rci_t L[1 << KK];
  for (int i = 0; i < (1 << KK); ++i) L[i] = vin_int();
  mzd_make_table(M, RR, CC, KK, T, L);
  int x = vin_range(0, (1 << KK) - 1);
  rci_t idx = L[x];
  VASSERT(idx >= 0 && idx < (1 << KK), "L[x] in range");
  enum { W = (NC + 63) / 64, HB = CC / 64 };
  word const *t = mzd_row_const(T, idx);
  word diff = 0;
  for (int j = HB; j < W; ++j) {
    word s = 0;
    for (int tt = 0; tt < KK; ++tt) {
      if (RR + tt < NR) {
        word sel = (word)0 - (word)((x >> tt) & 1);
        s ^= sel & mzd_row_const(M, RR + tt)[j];
      }
    }
    if (j == HB) s &= ~(word)0 << (CC % 64);
    if (j == W - 1) s &= vmask(NC);
    diff |= s ^ t[j];
  }
  VASSERT(diff == 0, "T[L[x]] is the sum of the rows selected by the bits of x (columns >= c)");
  VDONE();
}
#endif

#if defined(H_ALLCODES)
/* the code book container: m4ri_build_all_codes() provides a table for every k = 1..16 (the generator
 * m4ri_build_code itself is checked per k by H_CODE; here it is replaced by an empty stub so that the
 * 2^16-entry books need not be executed) and m4ri_destroy_all_codes() releases everything */
void stub_build_code(int *ord, int *inc, int l) { (void)ord; (void)inc; (void)l; }
void harness(void) {
  m4ri_codebook = NULL;
  m4ri_build_all_codes();
  VASSERT(m4ri_codebook != NULL, "code book container allocated");
  for (int k = 1; k <= __M4RI_MAXKAY; ++k) {
    VASSERT(m4ri_codebook[k] != NULL, "a code book exists for every k = 1..16");
    VASSERT(m4ri_codebook[k]->ord != NULL && m4ri_codebook[k]->inc != NULL, "both tables of book k are allocated");
  }
  VASSERT(__M4RI_MAXKAY == 16, "MAXKAY is 16");
  m4ri_build_all_codes(); /* idempotent */
  m4ri_destroy_all_codes();
  VASSERT(m4ri_codebook == NULL, "destroy resets the container");
  VDONE();
}
#endif
