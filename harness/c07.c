/* C07 -- kernel (right null space).  MODE 1 PASSIVE A = [K | S] as in c02.c (K concrete, S symbolic);
 * MODE 2: A entirely concrete except a symbolic word band (rows x one word) -- used for rank-deficient
 * and zero inputs. Checks: NULL <=> rank == ncols; K is n x (n-r); A0*K == 0; rank(K) == n-r. */
#include "verif.h"
#define SPEC_MAXR 140
#include "specla.h"
#define WORDS(c) (((c) + 63) / 64)
#ifndef VSEED
#define VSEED 1
#endif
#ifndef CUTOFF
#define CUTOFF 0
#endif
#ifndef KW
#define KW 1
#endif
#ifndef RSYM
#define RSYM NR
#endif
#ifndef PROF
#define PROF 0
#endif
#ifndef KINIT
#define KINIT 8
#endif
#ifndef GAPAT
#define GAPAT 0
#define GAPLEN 0
#endif
static int prof_col(int i) {
  switch (PROF) {
  case 1: return 2 * i + (i >= 3 ? 9 : 0);
  case 2: return 60 + i;
  case 3: return 64 + 3 * i;
  case 4: return (i < 2) ? i : 61 + i;
  case 8: return (i == 0) ? 0 : ((i <= GAPAT) ? 24 + i : 24 + i + GAPLEN); /* one pivot, 24-column gap, then GAPAT pivots in one block, gap */
  case 7: return i + (i >= GAPAT ? GAPLEN : 0);
  default: return i;
  }
}
static void gen_input(mzd_t *M) {
  enum { W = WORDS(NC) };
  vlcg_seed(VSEED);
  for (int i = 0; i < NR; ++i) {
    word *row = mzd_row(M, i);
    for (int j = 0; j < W; ++j) row[j] = 0;
    int conc = (i >= RSYM);
#ifndef CONCK
    if (!conc)
#endif
    {
      if (PROF == 0) { for (int j = 0; j < KW && j < W; ++j) row[j] = vlcg_next(); }
      else { int pc = prof_col(i); for (int j = pc / 64; j < KW && j < W; ++j) row[j] = vlcg_next();
             row[pc / 64] &= ~(word)0 << (pc % 64); row[pc / 64] |= (word)1 << (pc % 64); }
    }
#ifdef ALLZERO
    for (int j = 0; j < W; ++j) row[j] = 0;
#else
    for (int j = KW; j < W; ++j) row[j] = conc ? (vlcg_next() & vlcg_next()) : vin_word();
#endif
    row[W - 1] &= M->high_bitmask;
  }
  if (PROF != 0)
    for (int i = 1; i < RSYM; ++i) {
      word sel = vlcg_next();
      for (int t = 0; t < i; ++t)
        if ((sel >> t) & 1) for (int j = 0; j < W; ++j) mzd_row(M, i)[j] ^= mzd_row(M, t)[j];
    }
#ifdef ZTAIL /* trailing all-zero rows (after the concrete last non-zero row) */
  for (int i = NR - ZTAIL; i < NR; ++i) for (int j = 0; j < W; ++j) mzd_row(M, i)[j] = 0;
#define NRS (NR - ZTAIL)
#else
#define NRS NR
#endif
#ifdef LASTCONC
  for (int i = NRS - 2; i > 0; --i) {
#else
  for (int i = NRS - 1; i > 0; --i) {
#endif
    int t = (int)(vlcg_next() % (word)(i + 1));
    mzd_row_swap(M, i, t);
  }
}

void harness(void) {
  enum { W = WORDS(NC), WK = WORDS(NC) };
  verif_init(KINIT);
  mzd_t *A = mzd_init(NR, NC);
  gen_input(A);
  static word a0[NR * W];
  ref_from_mzd(a0, W, A);
  static spec_basis_t S;
  spec_basis(&S, a0, NR, NC, W);
  mzd_t *K = mzd_kernel_left_pluq(A, CUTOFF);
  VASSERT((K == NULL) == (S.rank == NC), "NULL exactly when rank == ncols");
  if (K != NULL) {
    VASSERT(K->nrows == NC && K->ncols == NC - S.rank, "kernel matrix is n x (n - r)");
#ifdef EXPECT_RANK
    VASSERT(S.rank == EXPECT_RANK, "harness sanity: rank of the generated input");
    /* with a concrete rank the dimensions of K are concrete: full algebraic check */
    enum { KC = NC - EXPECT_RANK, WKC = WORDS(KC > 0 ? KC : 1) };
    static word k[NC * WKC], prod[NR * WKC];
    ref_from_mzd(k, WKC, K);
    ref_mul(prod, a0, NR, NC, W, k, WKC, 0);
    word d = 0;
    for (int i = 0; i < NR * WKC; ++i) d |= prod[i];
    VASSERT(d == 0, "A0 * K == 0");
    word e = 0;
    for (int i = 0; i < NC; ++i) e |= mzd_row_const(K, i)[WKC - 1] & ~vmask(KC);
    VASSERT(e == 0, "padding of K is zero");
    /* columns independent: rank(K) == n - r  (row rank of the n x (n-r) matrix) */
    static spec_basis_t SK;
    spec_basis(&SK, k, NC, KC, WKC);
    VASSERT(SK.rank == KC, "columns of K are linearly independent");
#endif
  }
  VDONE();
}
