/* C08 -- addition and data movement. All contents symbolic, layout concrete (-D macros).
 * Every supplied destination is pre-filled with symbolic junk (valid bits; excess bits zero as the
 * representation invariant of an owned matrix demands); DSTM==0 means "allocated by the call". */
#include "verif.h"

#define WORDS(c) (((c) + 63) / 64)

#if defined(H_ADD)
/* NR, NC, ALIAS: 0 C=NULL, 1 C distinct dirty, 2 C==A, 3 C==B, 4 A==B (C distinct), 5 C==A==B */
void harness(void) {
  verif_init(0);
  enum { W = WORDS(NC), RS = (W & 1) ? W + 1 : W };
  mzd_t *A = vop(NR, NC, 0);
  mzd_t *B = (ALIAS == 4 || ALIAS == 5) ? A : vop(NR, NC, 1);
  static word a0[NR * W], b0[NR * W], sa[NR * RS], sb[NR * RS];
  ref_from_mzd(a0, W, A); ref_from_mzd(b0, W, B);
  mzd_t *C = NULL;
  if (ALIAS == 1 || ALIAS == 4) C = vop(NR, NC, 2);
  if (ALIAS == 2 || ALIAS == 5) C = A;
  if (ALIAS == 3) C = B;
  vsnap(sa, A); vsnap(sb, B);
#ifdef USE_UNDERSCORE
  mzd_t *R = _mzd_add(C ? C : vop_raw(NR, NC, 2, 0), A, B);
#else
  mzd_t *R = mzd_add(C, A, B);
#endif
  VASSERT(C == NULL || R == C, "returns the supplied destination");
  VASSERT(R->nrows == NR && R->ncols == NC, "result dims");
  for (int i = 0; i < NR * W; ++i) a0[i] ^= b0[i];
  VASSERT(ref_eq_mzd(a0, W, R, VOWNED(R)), "C = A + B entry-wise, padding zero");
  if (R != A) VASSERT(vsnap_same(sa, A), "A unchanged");
  if (R != B) VASSERT(vsnap_same(sb, B), "B unchanged");
  VFRAMES();
  VDONE();
}
#endif

#if defined(H_TRANSPOSE)
/* NR, NC; DSTM 0/1 */
void harness(void) {
  verif_init(0);
  enum { W = WORDS(NC), WT = WORDS(NR), RS = (W & 1) ? W + 1 : W };
  mzd_t *A = vop(NR, NC, 0);
  static word sa[NR * RS], ref[NC * WT];
  vsnap(sa, A);
  mzd_t *D = DSTM ? vop(NC, NR, 2) : NULL;
  mzd_t *R = mzd_transpose(D, A);
  VASSERT(D == NULL || R == D, "returns the supplied destination");
  VASSERT(R->nrows == NC && R->ncols == NR, "result dims");
  ref_zero(ref, NC * WT);
  for (int i = 0; i < NR; ++i)
    for (int j = 0; j < NC; ++j) ref_set(ref, WT, j, i, mzd_row_const(A, i)[j / 64] >> (j % 64));
  VASSERT(ref_eq_mzd(ref, WT, R, VOWNED(R)), "T[j][i] == A[i][j], padding zero");
  VASSERT(vsnap_same(sa, A), "A unchanged");
#ifdef TWICE
  mzd_t *R2 = mzd_transpose(NULL, R);
  static word a0[NR * W];
  ref_from_mzd(a0, W, A);
  VASSERT(ref_eq_mzd(a0, W, R2, VOWNED(R2)), "transposing twice gives the original");
#endif
  VFRAMES();
  VDONE();
}
#endif

#if defined(H_COPY)
/* NR, NC; DSTM 0 NULL, 1 same dims dirty, 2 larger (NR+DR, NC+DC) dirty */
#ifndef DR
#define DR 1
#define DC 70
#endif
void harness(void) {
  verif_init(0);
  enum { W = WORDS(NC), RS = (W & 1) ? W + 1 : W, NR2 = NR + DR, NC2 = NC + DC, W2 = WORDS(NC2) };
  mzd_t *A = vop(NR, NC, 0);
  static word sa[NR * RS], a0[NR * W], d0[NR2 * W2];
  vsnap(sa, A); ref_from_mzd(a0, W, A);
  mzd_t *D = NULL;
  if (DSTM == 1) D = vop(NR, NC, 2);
  if (DSTM == 2) { D = vop(NR2, NC2, 2); ref_from_mzd(d0, W2, D); }
  mzd_t *R = mzd_copy(D, A);
  VASSERT(D == NULL || R == D, "returns the supplied destination");
  if (DSTM != 2) {
    VASSERT(R->nrows == NR && R->ncols == NC, "dims");
    VASSERT(ref_eq_mzd(a0, W, R, VOWNED(R)), "copy equals source, padding zero");
  } else {
    /* documented: target may be larger; the source lands in the top-left corner, rest untouched */
    word m = vmask(NC);
    for (int i = 0; i < NR; ++i)
      for (int j = 0; j < W; ++j) {
        word keep = (j == W - 1) ? ~m : 0;
        d0[i * W2 + j] = (d0[i * W2 + j] & keep) | a0[i * W + j];
      }
    VASSERT(ref_eq_mzd(d0, W2, R, VOWNED(R)), "copy into larger target: top-left = source, rest unchanged");
  }
  VASSERT(vsnap_same(sa, A), "source unchanged");
  VFRAMES();
  VDONE();
}
#endif

#if defined(H_COPYROW)
/* B (NRB x NCB) row IB <- A (NRA x NC) row JA ; NCB >= NC */
void harness(void) {
  verif_init(0);
  enum { W = WORDS(NC), WB = WORDS(NCB), RS = (W & 1) ? W + 1 : W };
  mzd_t *A = vop(NRA, NC, 0);
  mzd_t *B = vop(NRB, NCB, 2);
  static word sa[NRA * RS], a0[NRA * W], b0[NRB * WB];
  vsnap(sa, A); ref_from_mzd(a0, W, A); ref_from_mzd(b0, WB, B);
  mzd_copy_row(B, IB, A, JA);
  word m = vmask(NC);
  for (int j = 0; j < W; ++j) {
    word keep = (j == W - 1) ? ~m : 0;
    b0[IB * WB + j] = (b0[IB * WB + j] & keep) | a0[JA * W + j];
  }
  VASSERT(ref_eq_mzd(b0, WB, B, VOWNED(B)), "row copied to columns [0,ncols(A)), everything else unchanged");
  VASSERT(vsnap_same(sa, A), "source unchanged");
  VFRAMES();
  VDONE();
}
#endif

#if defined(H_SETUI)
void harness(void) {
  verif_init(0);
  enum { W = WORDS(NC) };
  mzd_t *A = vop(NR, NC, 2);
  unsigned int v = (unsigned int)vin_int();
  mzd_set_ui(A, v);
  static word ref[NR * W];
  ref_zero(ref, NR * W);
  for (int i = 0; i < NR && i < NC; ++i) ref_set(ref, W, i, i, v & 1);
  VASSERT(ref_eq_mzd(ref, W, A, VOWNED(A)), "set_ui: zero / identity scaled by value mod 2");
  VFRAMES();
  VDONE();
}
#endif

#if defined(H_SUBMATRIX)
/* parent PR x PC ; [R0,R1) x [C0,C1) ; DSTM 0/1 */
void harness(void) {
  verif_init(0);
  enum { W = WORDS(PC), RS = (W & 1) ? W + 1 : W, SR = R1 - R0, SC = C1 - C0, WS = WORDS(SC) };
  mzd_t *M = vop(PR, PC, 0);
  static word sm[PR * RS], ref[SR * WS];
  vsnap(sm, M);
  mzd_t *D = DSTM ? vop(SR, SC, 2) : NULL;
  mzd_t *S = mzd_submatrix(D, M, R0, C0, R1, C1);
  VASSERT(D == NULL || S == D, "returns the supplied destination");
  VASSERT(S->nrows == SR && S->ncols == SC, "dims");
  ref_zero(ref, SR * WS);
  for (int i = 0; i < SR; ++i)
    for (int j = 0; j < SC; ++j) ref_set(ref, WS, i, j, mzd_row_const(M, R0 + i)[(C0 + j) / 64] >> ((C0 + j) % 64));
  VASSERT(ref_eq_mzd(ref, WS, S, VOWNED(S)), "S[i][j] == M[r0+i][c0+j], padding zero");
  VASSERT(vsnap_same(sm, M), "source unchanged");
  VFRAMES();
  VDONE();
}
#endif

#if defined(H_CONCAT)
/* A: NR x NCA, B: NR x NCB */
void harness(void) {
  verif_init(0);
  enum { WA = WORDS(NCA), WB = WORDS(NCB), NCC = NCA + NCB, WC = WORDS(NCC), RSA = (WA & 1) ? WA + 1 : WA, RSB = (WB & 1) ? WB + 1 : WB };
  mzd_t *A = vop(NR, NCA, 0), *B = vop(NR, NCB, 1);
  static word sa[NR * RSA], sb[NR * RSB], ref[NR * WC];
  vsnap(sa, A); vsnap(sb, B);
  mzd_t *D = DSTM ? vop(NR, NCC, 2) : NULL;
  mzd_t *C = mzd_concat(D, A, B);
  VASSERT(D == NULL || C == D, "returns the supplied destination");
  VASSERT(C->nrows == NR && C->ncols == NCC, "dims");
  ref_zero(ref, NR * WC);
  for (int i = 0; i < NR; ++i) {
    for (int j = 0; j < NCA; ++j) ref_set(ref, WC, i, j, mzd_row_const(A, i)[j / 64] >> (j % 64));
    for (int j = 0; j < NCB; ++j) ref_set(ref, WC, i, NCA + j, mzd_row_const(B, i)[j / 64] >> (j % 64));
  }
  VASSERT(ref_eq_mzd(ref, WC, C, VOWNED(C)), "C = [A | B], padding zero");
  VASSERT(vsnap_same(sa, A) && vsnap_same(sb, B), "sources unchanged");
  VFRAMES();
  VDONE();
}
#endif

#if defined(H_STACK)
/* A: NRA x NC, B: NRB x NC */
void harness(void) {
  verif_init(0);
  enum { W = WORDS(NC), RS = (W & 1) ? W + 1 : W };
  mzd_t *A = vop(NRA, NC, 0), *B = vop(NRB, NC, 1);
  static word sa[NRA * RS], sb[NRB * RS], ref[(NRA + NRB) * W];
  vsnap(sa, A); vsnap(sb, B);
  mzd_t *D = DSTM ? vop(NRA + NRB, NC, 2) : NULL;
  mzd_t *C = mzd_stack(D, A, B);
  VASSERT(D == NULL || C == D, "returns the supplied destination");
  VASSERT(C->nrows == NRA + NRB && C->ncols == NC, "dims");
  ref_from_mzd(ref, W, A); ref_from_mzd(ref + NRA * W, W, B);
  VASSERT(ref_eq_mzd(ref, W, C, VOWNED(C)), "C = [A ; B], padding zero");
  VASSERT(vsnap_same(sa, A) && vsnap_same(sb, B), "sources unchanged");
  VFRAMES();
  VDONE();
}
#endif

#if defined(H_EXTRACT)
/* A: NR x NC ; UPPER 1/0 ; DSTM 0/1 */
void harness(void) {
  verif_init(0);
  enum { W = WORDS(NC), RS = (W & 1) ? W + 1 : W, KK = (NR < NC ? NR : NC), WK = WORDS(KK) };
  mzd_t *A = vop(NR, NC, 0);
  static word sa[NR * RS], ref[KK * WK];
  vsnap(sa, A);
  mzd_t *D = DSTM ? vop(KK, KK, 2) : NULL;
  mzd_t *R = UPPER ? mzd_extract_u(D, A) : mzd_extract_l(D, A);
  VASSERT(D == NULL || R == D, "returns the supplied destination");
  VASSERT(R->nrows == KK && R->ncols == KK, "dims");
  ref_zero(ref, KK * WK);
  for (int i = 0; i < KK; ++i)
    for (int j = 0; j < KK; ++j)
      if (UPPER ? (j >= i) : (j <= i)) ref_set(ref, WK, i, j, mzd_row_const(A, i)[j / 64] >> (j % 64));
  VASSERT(ref_eq_mzd(ref, WK, R, VOWNED(R)), "triangle (incl. diagonal) extracted, other triangle zero");
  VASSERT(vsnap_same(sa, A), "source unchanged");
  VFRAMES();
  VDONE();
}
#endif
