/* C18 -- file I/O.  libpng and stdio are nondeterministic FFI stubs constrained only by their
 * documented contracts (DESIGN 5/C18); the parsers under test are the real io.c.
 * H_PNGRT  : mzd_from_png(mzd_to_png(A)) == A, A symbolic PH x PW; the write stub stores what libpng
 *            would put into the file for a 1-bit grayscale image after the transformations the writer
 *            requested (packswap, invert_mono); the read stub replays the stored rows.
 * H_PNGBAD : arbitrary header (bit depth, colour type, channels, interlace) and arbitrary row bytes
 *            of the length libpng's contract dictates; the reader must reject / abort / return a
 *            matrix without touching memory outside its buffers (CBMC pointer checks).
 * H_JCF    : arbitrary token stream; H_STR: arbitrary characters. */
#include "verif.h"
#include <png.h>
#include <setjmp.h>
#include <stdarg.h>
#include <stdio.h>
#include <time.h>

#ifndef PW
#define PW 1
#endif
#ifndef PH
#define PH 1
#endif
#define MAXROWBYTES 64

/* ------------------------------------------------------------------ ghost "file" + libpng state */
static unsigned char g_file[4][MAXROWBYTES];
static unsigned g_w, g_h, g_depth, g_color, g_channels, g_interlace;
static int g_wr_packswap, g_wr_invert, g_rd_packswap, g_rd_invert;
static int g_wrow, g_rrow, g_writing, g_ihdr_set;
static char g_png_obj[8], g_info_obj[8];
static FILE *g_fh;
static char g_fileobj[8];

static unsigned char swapbits8(unsigned char b) {
  b = (unsigned char)(((b & 0xF0) >> 4) | ((b & 0x0F) << 4));
  b = (unsigned char)(((b & 0xCC) >> 2) | ((b & 0x33) << 2));
  b = (unsigned char)(((b & 0xAA) >> 1) | ((b & 0x55) << 1));
  return b;
}
static unsigned rowbytes(void) { return (g_w * g_depth * g_channels + 7) / 8; }

/* ---- stdio ---- */
FILE *fopen(const char *fn, const char *mode) {
  (void)fn; (void)mode;
#ifdef FOPEN_MAY_FAIL
  if (vin_range(0, 1)) return NULL;
#endif
  g_fh = (FILE *)g_fileobj;
  return g_fh;
}
int fclose(FILE *f) { VASSERT(f == g_fh, "fclose on the handle that was opened"); return 0; }
size_t fread(void *p, size_t sz, size_t n, FILE *f) {
  (void)f;
  unsigned char *c = (unsigned char *)p;
  for (size_t i = 0; i < sz * n && i < 64; ++i) c[i] = (unsigned char)vin_int();
#if defined(H_PNGBAD) && defined(FAIL_FREAD) /* deterministic per query: a symbolic jump to the cleanup labels makes CBMC blow up (measured) */
  return 0;
#else
  return n;
#endif
}
int printf(const char *f, ...) { (void)f; return 0; }
int sprintf(char *s, const char *f, ...) { (void)f; s[0] = 0; return 0; }
time_t time(time_t *t) { (void)t; return (time_t)vin_int(); }
static struct tm g_tm;
struct tm *localtime(const time_t *t) {
  (void)t;
  g_tm.tm_year = vin_range(70, 8099); g_tm.tm_mon = vin_range(0, 11); g_tm.tm_mday = vin_range(1, 31);
  g_tm.tm_hour = vin_range(0, 23); g_tm.tm_min = vin_range(0, 59); g_tm.tm_sec = vin_range(0, 60);
  return &g_tm;
}

/* ---- libpng (contract level) ---- */
int png_sig_cmp(png_const_bytep sig, size_t start, size_t num) {
  (void)sig; (void)start; (void)num;
#if defined(H_PNGBAD) && defined(FAIL_SIG)
  return 1;
#else
  return 0;
#endif
}
png_structp png_create_read_struct(png_const_charp v, png_voidp e, png_error_ptr ef, png_error_ptr wf) {
  (void)v; (void)e; (void)ef; (void)wf;
#if defined(H_PNGBAD) && defined(FAIL_CREATE)
  return NULL;
#endif
  g_writing = 0; g_rrow = 0;
  return (png_structp)g_png_obj;
}
png_structp png_create_write_struct(png_const_charp v, png_voidp e, png_error_ptr ef, png_error_ptr wf) {
  (void)v; (void)e; (void)ef; (void)wf;
  g_writing = 1; g_wrow = 0;
  return (png_structp)g_png_obj;
}
png_infop png_create_info_struct(png_const_structrp p) {
  (void)p;
#if defined(H_PNGBAD) && defined(FAIL_INFO)
  return NULL;
#endif
  return (png_infop)g_info_obj;
}
void png_set_user_limits(png_structrp p, png_uint_32 a, png_uint_32 b) { (void)p; (void)a; (void)b; }
void png_init_io(png_structrp p, png_FILE_p fp) { (void)p; VASSERT(fp == g_fh, "png_init_io gets the open handle"); }
void png_set_sig_bytes(png_structrp p, int n) { (void)p; (void)n; }
void png_read_info(png_structrp p, png_inforp i) {
  (void)p; (void)i;
#if defined(H_PNGBAD)
  if (vin_range(0, 1)) __CPROVER_assume(0); /* libpng error: longjmp / abort => process ends */
#endif
}
#ifdef H_PNGBAD
#define G_H PH
#define G_W PW
#else
#define G_H g_h
#define G_W g_w
#endif
png_uint_32 png_get_image_height(png_const_structrp p, png_const_inforp i) { (void)p; (void)i; return G_H; }
png_uint_32 png_get_image_width(png_const_structrp p, png_const_inforp i) { (void)p; (void)i; return G_W; }
png_byte png_get_bit_depth(png_const_structrp p, png_const_inforp i) { (void)p; (void)i; return (png_byte)g_depth; }
png_byte png_get_channels(png_const_structrp p, png_const_inforp i) { (void)p; (void)i; return (png_byte)g_channels; }
png_byte png_get_color_type(png_const_structrp p, png_const_inforp i) { (void)p; (void)i; return (png_byte)g_color; }
png_byte png_get_compression_type(png_const_structrp p, png_const_inforp i) { (void)p; (void)i; return 0; }
png_byte png_get_interlace_type(png_const_structrp p, png_const_inforp i) { (void)p; (void)i; return (png_byte)g_interlace; }
void png_set_packswap(png_structrp p) { (void)p; if (g_writing) g_wr_packswap = 1; else g_rd_packswap = 1; }
void png_set_invert_mono(png_structrp p) { (void)p; if (g_writing) g_wr_invert = 1; else g_rd_invert = 1; }
/* contract: writes exactly rowbytes bytes into row */
void png_read_row(png_structrp p, png_bytep row, png_bytep disp) {
  (void)p; (void)disp;
  unsigned rb = rowbytes();
  for (unsigned k = 0; k < MAXROWBYTES; ++k) {
    if (k < rb) {
#ifdef H_PNGBAD
      row[k] = (unsigned char)vin_int();
#else
      unsigned char b = g_file[g_rrow][k];
      if (g_rd_invert) b = (unsigned char)~b;
      if (g_rd_packswap) b = swapbits8(b);
      row[k] = b;
#endif
    }
  }
  g_rrow++;
}
void png_read_end(png_structrp p, png_inforp i) { (void)p; (void)i; }
void png_destroy_read_struct(png_structpp a, png_infopp b, png_infopp c) { (void)a; (void)b; (void)c; }
void png_destroy_write_struct(png_structpp a, png_infopp b) { (void)a; (void)b; }
static jmp_buf g_jb;
jmp_buf *png_set_longjmp_fn(png_structrp p, png_longjmp_ptr f, size_t n) { (void)p; (void)f; (void)n; return &g_jb; }
int _setjmp(struct __jmp_buf_tag *e) { (void)e; return 0; }
void png_set_compression_level(png_structrp p, int l) { (void)p; (void)l; }
void png_set_IHDR(png_const_structrp p, png_inforp i, png_uint_32 w, png_uint_32 h, int depth, int color, int il, int cm, int fm) {
  (void)p; (void)i; (void)cm; (void)fm;
  g_w = w; g_h = h; g_depth = (unsigned)depth; g_color = (unsigned)color; g_channels = 1; g_interlace = (unsigned)il; g_ihdr_set = 1;
}
void png_set_text(png_const_structrp p, png_inforp i, png_const_textp t, int n) { (void)p; (void)i; (void)t; (void)n; }
void png_write_info(png_structrp p, png_const_inforp i) { (void)p; (void)i; VASSERT(g_ihdr_set, "IHDR set before write_info"); }
/* contract: reads exactly rowbytes bytes of row; the file gets the transformed bytes */
void png_write_row(png_structrp p, png_const_bytep row) {
  (void)p;
  unsigned rb = rowbytes();
  for (unsigned k = 0; k < MAXROWBYTES; ++k) {
    if (k < rb) {
      unsigned char b = row[k];
      if (g_wr_packswap) b = swapbits8(b);
      if (g_wr_invert) b = (unsigned char)~b;
      g_file[g_wrow][k] = b;
    }
  }
  g_wrow++;
}
void png_write_end(png_structrp p, png_inforp i) { (void)p; (void)i; }

#define WORDS(c) (((c) + 63) / 64)

#if defined(H_PNGRT)
void harness(void) {
  enum { W = WORDS(PW) };
  mzd_t *A = vmat(PH, PW);
  static word a[PH * W];
  ref_from_mzd(a, W, A);
  int level = vin_int();
  int rc = mzd_to_png(A, "f.png", level, "c", 0);
  VASSERT(rc == 0, "writer reports success");
  VASSERT(g_w == PW && g_h == PH && g_depth == 1 && g_color == 0, "IHDR: ncols x nrows, 1 bit grayscale");
  VASSERT(g_wrow == PH, "one row written per matrix row");
  mzd_t *B = mzd_from_png("f.png", 0);
  VASSERT(B != NULL, "reader accepts what the writer produced");
  VASSERT(B->nrows == PH && B->ncols == PW, "dims survive the round trip");
  VASSERT(ref_eq_mzd(a, W, B, 1), "mzd_from_png(mzd_to_png(A)) == A, padding zero");
  VASSERT(ref_eq_mzd(a, W, A, 1), "A unchanged by the writer");
  VDONE();
}
#endif

#if defined(H_PNGBAD)
void harness(void) {
  verif_die_expected = 1;
  g_w = PW; g_h = PH;
  /* bit depth and colour type are enumerated by the plan (every combination the PNG specification
   * allows): a symbolic row length makes CBMC generate out-of-object writes under infeasible guards
   * (10 GB within seconds, measured) */
  g_depth = PDEPTH;
  g_color = PCOLOR;
  g_channels = (g_color == 0 || g_color == 3) ? 1 : (g_color == 2 ? 3 : (g_color == 4 ? 2 : 4));
  g_interlace = PINTERLACE;
  mzd_t *B = mzd_from_png("f.png", 0);
#if defined(FAIL_FREAD) || defined(FAIL_SIG) || defined(FAIL_CREATE) || defined(FAIL_INFO) || PINTERLACE
  VASSERT(B == NULL, "unreadable / unsupported file is rejected with NULL");
#endif
  if (B != NULL) {
    VASSERT(B->nrows == PH && B->ncols == PW, "a returned matrix has the image's dimensions");
    word e = 0;
    for (int i = 0; i < PH; ++i) e |= mzd_row_const(B, i)[B->width - 1] & ~vmask(PW);
    VASSERT(e == 0, "padding zero");
    VASSERT(g_depth == 1 && (g_color == 0 || g_color == 3), "only 1-bit grayscale/palette images are turned into a matrix");
  }
  VDONE();
}
#endif

#if defined(H_JCF)
#ifndef NTOK
#define NTOK 4
#endif
static int g_calls;
static long g_tok[NTOK + 1];
static int g_ntok;
int fscanf(FILE *f, const char *fmt, ...) {
  (void)f; (void)fmt;
  va_list ap;
  va_start(ap, fmt);
  int ret;
  if (g_calls == 0) {
    int *pm = va_arg(ap, int *); int *pn = va_arg(ap, int *); long *pp = va_arg(ap, long *); long *pz = va_arg(ap, long *);
    *pm = PH; *pn = PW; *pp = vin_range(0, 3); *pz = vin_int();
#ifdef BADHEADER
    ret = vin_range(-1, 4);
#else
    ret = 4;
#endif
  } else {
    long *pj = va_arg(ap, long *);
    if (g_ntok < NTOK && vin_range(0, 1)) { long v = (long)vin_int(); *pj = v; g_tok[g_ntok++] = v; ret = 1; }
    else ret = -1;
  }
  va_end(ap);
  g_calls++;
  return ret;
}
void harness(void) {
  enum { W = WORDS(PW) };
  verif_die_expected = 1;
  mzd_t *B = mzd_from_jcf("f.jcf", 0);
  if (B != NULL) {
    VASSERT(B->nrows == PH && B->ncols == PW, "dims from the header");
    /* the matrix the token sequence denotes */
    static word ref[PH * W];
    ref_zero(ref, PH * W);
    long i = -1; int valid = 1;
    for (int t = 0; t < NTOK; ++t) {
      if (t < g_ntok) {
        long j = g_tok[t];
        if (j < 0) { i++; j = -j; }
        long col = j - 1;
        if (i < 0 || i >= PH || col < 0 || col >= PW) valid = 0;
        else for (int r = 0; r < PH; ++r) for (int w = 0; w < W; ++w) if (r == i && w == col / 64) ref[r * W + w] |= (word)1 << (col % 64);
      }
    }
    VASSERT(valid, "a file with an out-of-range / zero / wrongly signed index is never turned into a matrix");
    if (valid) VASSERT(ref_eq_mzd(ref, W, B, 1), "the matrix is exactly what the text denotes");
  }
  VDONE();
}
#endif

#if defined(H_STR)
void harness(void) {
  enum { W = WORDS(PW) };
  static char s[PH * PW + 1];
  static word ref[PH * W];
  ref_zero(ref, PH * W);
  for (int i = 0; i < PH * PW; ++i) { s[i] = (char)vin_int(); ref_set(ref, W, i / PW, i % PW, s[i] == '1'); }
  s[PH * PW] = 0;
  mzd_t *A = mzd_from_str(PH, PW, s);
  VASSERT(A != NULL && A->nrows == PH && A->ncols == PW, "dims");
  VASSERT(ref_eq_mzd(ref, W, A, 1), "entry (i,j) is one exactly where the text has '1'");
  VDONE();
}
#endif
