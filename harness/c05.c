/* C05 -- inversion.
 * H_INVWRAP : mzd_inv_m4ri(B, A, KPAR) with the elimination replaced by its contract (stub), A fully
 *             symbolic.  Checks everything the wrapper does: augmentation [A | I] at the right word
 *             offsets, call, copy-out, A untouched, supplied B overwritten.
 * H_INVNAIVE: mzd_invert_naive(INV, A, I) FULL symbolic A (assumed invertible via the reference rank).
 * H_TRTRI   : mzd_trtri_upper(U) on a unit upper triangular matrix, FULL or REGION symbolic. */
#include "verif.h"
#include "specla.h"
#define WORDS(c) (((c) + 63) / 64)
#ifndef KPAR
#define KPAR 0
#endif
#ifndef KINIT
#define KINIT 8
#endif
#ifndef VSEED
#define VSEED 1
#endif

#if defined(H_INVWRAP)
enum { W = WORDS(NN) };
static word ghost_x[NN * W];
static int stub_called;
/* contract stub for mzd_echelonize_m4ri(C, full, k) as used by mzd_inv_m4ri:
 * pre : C = [A0 | 0pad | I | 0pad] (n x 2*64*W), full != 0
 * post: C = [I | 0pad | X | 0pad] with A0 * X = I, returns n   (what C02 establishes within its bounds) */
rci_t verif_ech_stub(mzd_t *C, int full, int k) {
  stub_called++;
  VASSERT(k >= 0 && k <= 10, "table parameter handed to the elimination is admissible (0..10)");
  VASSERT(full != 0, "inversion requests the reduced form");
  VASSERT(C->nrows == NN && C->ncols == 2 * 64 * W, "augmented matrix is n x 2*64*width");
  static word a0[NN * W];
  word okI = 0;
  for (int i = 0; i < NN; ++i) {
    word const *row = mzd_row_const(C, i);
    for (int j = 0; j < W; ++j) {
      a0[i * W + j] = row[j];
      word idw = (i / 64 == j) ? ((word)1 << (i % 64)) : 0;
      okI |= row[W + j] ^ idw;
    }
  }
  VASSERT(okI == 0, "right half of the augmented matrix is the identity (zero padded)");
  for (int i = 0; i < NN * W; ++i) ghost_x[i] = vin_word();
  for (int i = 0; i < NN; ++i) ghost_x[i * W + W - 1] &= vmask(NN);
  static word prod[NN * W];
  ref_mul(prod, a0, NN, NN, W, ghost_x, W, 0);
  word d = 0;
  for (int i = 0; i < NN; ++i)
    for (int j = 0; j < W; ++j) d |= prod[i * W + j] ^ ((i / 64 == j) ? ((word)1 << (i % 64)) : 0);
  VASSUME(d == 0); /* unsatisfiable exactly for singular A0, which the property excludes */
  for (int i = 0; i < NN; ++i) {
    word *row = mzd_row(C, i);
    for (int j = 0; j < W; ++j) {
      row[j] = (i / 64 == j) ? ((word)1 << (i % 64)) : 0;
      row[W + j] = ghost_x[i * W + j];
    }
  }
  return NN;
}
void harness(void) {
  enum { RS = (W & 1) ? W + 1 : W };
  verif_init(KINIT);
  mzd_t *A = vop(NN, NN, 0);
  static word a0[NN * W], sa[NN * RS];
  ref_from_mzd(a0, W, A);
  vsnap(sa, A);
  mzd_t *B = BMODE ? vop(NN, NN, 2) : NULL;
  int kpar = vin_int(); /* every value of the (documented: ignored / auto) table parameter */
  mzd_t *R = mzd_inv_m4ri(B, A, kpar);
  VASSERT(stub_called == 1, "elimination called exactly once");
  VASSERT(B == NULL || R == B, "returns the supplied destination");
  VASSERT(R->nrows == NN && R->ncols == NN, "dims");
  VASSERT(ref_eq_mzd(ghost_x, W, R, VOWNED(R)), "returned matrix is the X with A*X = I, padding zero");
  VASSERT(vsnap_same(sa, A), "A unchanged");
  /* B*A = I follows from A*B = I for square matrices; checked explicitly for small n */
#if NN <= 3
  static word p2[NN * W];
  ref_mul(p2, ghost_x, NN, NN, W, a0, W, 0);
  word d = 0;
  for (int i = 0; i < NN; ++i) for (int j = 0; j < W; ++j) d |= p2[i * W + j] ^ ((i / 64 == j) ? ((word)1 << (i % 64)) : 0);
  VASSERT(d == 0, "B*A == I as well");
#endif
  VFRAMES();
  VDONE();
}
#endif

#if defined(H_INVNAIVE)
void harness(void) {
  enum { W = WORDS(NN), RS = (W & 1) ? W + 1 : W };
  verif_init(1);
  mzd_t *A = vmat(NN, NN);
  mzd_t *I = mzd_init(NN, NN);
  mzd_set_ui(I, 1);
  static word a0[NN * W], sa[NN * RS], x[NN * W], prod[NN * W];
  ref_from_mzd(a0, W, A);
  vsnap(sa, A);
  static spec_basis_t S;
  spec_basis(&S, a0, NN, NN, W);
  VASSUME(S.rank == NN); /* invertible inputs only */
  mzd_t *R = mzd_invert_naive(NULL, A, I);
  VASSERT(R != NULL, "invertible input: an inverse is returned");
  ref_from_mzd(x, W, R);
  ref_mul(prod, a0, NN, NN, W, x, W, 0);
  word d = 0;
  for (int i = 0; i < NN; ++i) for (int j = 0; j < W; ++j) d |= prod[i * W + j] ^ ((i / 64 == j) ? ((word)1 << (i % 64)) : 0);
  VASSERT(d == 0, "A * B == I");
  VASSERT(vsnap_same(sa, A), "A unchanged");
  VDONE();
}
#endif

#if defined(H_TRTRI)
/* U: NN x NN unit upper triangular. Symbolic region U_SYM_R0..R1 x words W0..W1 (default: all),
 * rest concrete from the LCG; strictly lower part is forced to zero (it is a triangular matrix) */
#ifndef U_SYM_R0
#define U_SYM_R0 0
#define U_SYM_R1 NN
#define U_SYM_W0 0
#define U_SYM_W1 WORDS(NN)
#endif
void harness(void) {
  enum { W = WORDS(NN) };
  vlcg_seed(VSEED);
  verif_init(KINIT);
  mzd_t *U = vop_raw(NN, NN, 2, 0);
  vfill_mixed(U, 0, U_SYM_R0, U_SYM_R1, U_SYM_W0, U_SYM_W1);
  for (int i = 0; i < NN; ++i) { /* unit upper triangular */
    word *row = mzd_row(U, i);
    for (int j = 0; j < W; ++j) {
      word m;
      int lo = j * 64;
      m = (i <= lo) ? ~(word)0 : (i > lo + 63 ? 0 : (~(word)0 << (i - lo)));
      if (j == W - 1) m &= vmask(NN);
      word keep = (j == W - 1) ? ~vmask(NN) : 0;
      row[j] = (row[j] & (m | keep));
    }
    mzd_write_bit(U, i, i, 1);
  }
  static word u0[NN * W], u1[NN * W], prod[NN * W];
  ref_from_mzd(u0, W, U);
  mzd_t *R = mzd_trtri_upper(U);
  VASSERT(R == U, "in place");
  ref_from_mzd(u1, W, U);
  ref_mul(prod, u0, NN, NN, W, u1, W, 0);
  word d = 0, low = 0;
  for (int i = 0; i < NN; ++i)
    for (int j = 0; j < W; ++j) {
      d |= prod[i * W + j] ^ ((i / 64 == j) ? ((word)1 << (i % 64)) : 0);
      int lo = j * 64;
      word below = (i <= lo) ? 0 : (i > lo + 63 ? ~(word)0 : (((word)1 << (i - lo)) - 1)); /* columns < i */
      low |= u1[i * W + j] & below;
    }
  VASSERT(d == 0, "U0 * U' == I");
  VASSERT(low == 0, "result is upper triangular (strictly lower part still zero)");
  if (VOWNED(U)) {
    word e = 0;
    for (int i = 0; i < NN; ++i) e |= mzd_row_const(U, i)[W - 1] & ~vmask(NN);
    VASSERT(e == 0, "padding stays zero");
  }
  VFRAMES();
  VDONE();
}
#endif
