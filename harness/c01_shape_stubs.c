/* contract stubs of the Strassen shape check (see c01_shape.c); linked with the renamed strassen.c object
 * BEFORE call replacement so that only calls inside that object are redirected */
#include "verif.h"

static void mkhdr(mzd_t *M, int r, int c, int win) {
  M->nrows = r; M->ncols = c; M->width = (c + 63) / 64; M->rowstride = (M->width & 1) ? M->width + 1 : M->width;
  M->high_bitmask = 0; M->flags = win ? mzd_flag_windowed : 0; M->data = NULL;
}
static mzd_t *fresh(int r, int c, int win) { /* one heap object per call: no symbolic pool index after symbolic branches */
  mzd_t *M = (mzd_t *)malloc(sizeof(mzd_t));
  __CPROVER_assume(M != NULL);
  mkhdr(M, r, c, win);
  return M;
}
mzd_t *stub_init_window(mzd_t *M, rci_t lowr, rci_t lowc, rci_t highr, rci_t highc) {
  VASSERT(lowc % 64 == 0, "window column offset is word aligned");
  VASSERT(0 <= lowr && lowr < highr && highr <= M->nrows, "window rows non-empty and inside the parent");
  VASSERT(0 <= lowc && lowc < highc && highc <= M->ncols, "window columns non-empty and inside the parent");
  return fresh(highr - lowr, highc - lowc, 1);
}
mzd_t *stub_init(rci_t r, rci_t c) {
  VASSERT(r > 0 && c > 0, "temporary has positive dimensions");
  return fresh(r, c, 0);
}
void stub_free(mzd_t *M) { (void)M; }
mzd_t *stub_copy(mzd_t *N, mzd_t const *P) {
  if (N == NULL) return fresh(P->nrows, P->ncols, 0);
  VASSERT(N->nrows >= P->nrows && N->ncols >= P->ncols, "copy target large enough");
  return N;
}
mzd_t *stub_add(mzd_t *C, mzd_t const *A, mzd_t const *B) {
  VASSERT(A->nrows > 0 && A->ncols > 0, "addition operands non-empty");
  VASSERT(A->nrows == B->nrows && A->ncols == B->ncols && C->nrows == A->nrows && C->ncols == A->ncols, "addition operands have equal shapes");
  return C;
}
static void prod_pre(mzd_t const *C, mzd_t const *A, mzd_t const *B) {
  VASSERT(A->nrows > 0 && A->ncols > 0 && B->ncols > 0, "product operands have positive dimensions");
  VASSERT(A->ncols == B->nrows, "product operands conform");
  VASSERT(C->nrows == A->nrows && C->ncols == B->ncols, "destination has the shape of the product");
}
mzd_t *stub_rec_mul(mzd_t *C, mzd_t const *A, mzd_t const *B, int cutoff) { VASSERT(cutoff >= 64 && cutoff % 64 == 0, "cutoff"); prod_pre(C, A, B); return C; }
mzd_t *stub_rec_sqr(mzd_t *C, mzd_t const *A, int cutoff) { VASSERT(cutoff >= 64 && cutoff % 64 == 0, "cutoff"); prod_pre(C, A, A); return C; }
mzd_t *stub_mzd_mul(mzd_t *C, mzd_t const *A, mzd_t const *B, int cutoff) {
  VASSERT(cutoff >= 0, "cutoff");
  VASSERT(A->nrows > 0 && A->ncols > 0 && B->ncols > 0 && A->ncols == B->nrows, "product operands conform, positive dimensions");
  if (C == NULL) return fresh(A->nrows, B->ncols, 0);
  prod_pre(C, A, B);
  return C;
}
mzd_t *stub_mul_m4rm(mzd_t *C, mzd_t const *A, mzd_t const *B, int k, int clear) { (void)k; (void)clear; prod_pre(C, A, B); return C; }
mzd_t *stub_addmul_m4rm(mzd_t *C, mzd_t const *A, mzd_t const *B, int k) { (void)k; prod_pre(C, A, B); return C; }

