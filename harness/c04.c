/* C04 -- TRSM, four variants.  VARIANT 0 lower_left (L X = B), 1 upper_left (U X = B),
 * 2 upper_right (X U = B), 3 lower_right (X L = B).   T is NT x NT, B is NT x NB (left) or
 * MB x NT (right).  T: diagonal forced to one, both triangles arbitrary (the unused triangle holds
 * junk, as when L and U share storage).  T_SYM_* / B_SYM_*: symbolic region (rest concrete). */
#include "verif.h"
#define WORDS(c) (((c) + 63) / 64)
#ifndef VSEED
#define VSEED 1
#endif
#ifndef CUTOFF
#define CUTOFF 0
#endif
#ifndef KINIT
#define KINIT 8
#endif
#if VARIANT <= 1
#define BR NT
#define BC NB
#else
#define BR MB
#define BC NT
#endif
#ifndef T_SYM_R0
#define T_SYM_R0 0
#define T_SYM_R1 NT
#define T_SYM_W0 0
#define T_SYM_W1 WORDS(NT)
#endif
#ifndef B_SYM_R0
#define B_SYM_R0 0
#define B_SYM_R1 BR
#define B_SYM_W0 0
#define B_SYM_W1 WORDS(BC)
#endif
#ifndef TPAT
#define TPAT 0
#endif

void harness(void) {
  enum { WT = WORDS(NT), WB = WORDS(BC), RST = (WT & 1) ? WT + 1 : WT };
  vlcg_seed(VSEED);
  verif_init(KINIT);
  mzd_t *T = vop_raw(NT, NT, 0, 0);
  vfill_mixed(T, TPAT, T_SYM_R0, T_SYM_R1, T_SYM_W0, T_SYM_W1);
  for (int i = 0; i < NT; ++i) mzd_write_bit(T, i, i, 1);
  mzd_t *B = vop_raw(BR, BC, 2, 0);
  vfill_mixed(B, 0, B_SYM_R0, B_SYM_R1, B_SYM_W0, B_SYM_W1);
  static word t[NT * WT], b0[BR * WB], x[BR * WB], chk[BR * WB], st[NT * RST];
  vsnap(st, T);
  ref_from_mzd(t, WT, T); ref_from_mzd(b0, WB, B);
  /* keep only the named triangle + unit diagonal in the reference T */
  int lower = (VARIANT == 0 || VARIANT == 3);
  for (int i = 0; i < NT; ++i)
    for (int j = 0; j < WT; ++j) {
      word m;
      int lo = j * 64;
      if (lower) m = (i >= lo + 63) ? ~(word)0 : (i < lo ? 0 : (((word)2 << (i - lo)) - 1));   /* columns <= i */
      else       m = (i <= lo) ? ~(word)0 : (i > lo + 63 ? 0 : (~(word)0 << (i - lo)));          /* columns >= i */
      t[i * WT + j] &= m;
    }
#if VARIANT == 0
  mzd_trsm_lower_left(T, B, CUTOFF);
#elif VARIANT == 1
  mzd_trsm_upper_left(T, B, CUTOFF);
#elif VARIANT == 2
  mzd_trsm_upper_right(T, B, CUTOFF);
#else
  mzd_trsm_lower_right(T, B, CUTOFF);
#endif
  ref_from_mzd(x, WB, B);
  {
    word d = 0; /* padding of the owned B stays zero */
    for (int i = 0; i < BR; ++i) d |= mzd_row_const(B, i)[WB - 1] & ~vmask(BC);
    if (VOWNED(B)) VASSERT(d == 0, "padding of B stays zero");
  }
#if VARIANT <= 1
  ref_mul(chk, t, NT, NT, WT, x, WB, 0);   /* T * X */
#else
  ref_mul(chk, x, BR, NT, WB, t, WT, 0);   /* X * T  (WB == WT) */
#endif
  word d = 0;
  for (int i = 0; i < BR * WB; ++i) d |= chk[i] ^ b0[i];
  VASSERT(d == 0, "T*X == B0 resp. X*T == B0 (named triangle + unit diagonal only)");
  VASSERT(vsnap_same(st, T), "T unchanged");
  VFRAMES();
  VDONE();
}
