/* C15 -- thread-safe build: the sufficient condition "a library call writes only to its operands,
 * to memory it allocated itself and to its own stack - never to an object of static storage duration"
 * (then threads working on disjoint operands cannot race, given a thread-safe malloc).
 * Decided with CBMC's dynamic frame-condition checking: goto-instrument --dfcc instruments EVERY
 * assignment reachable from scen() and proves it lies inside the assigns clause below (operands'
 * storage) or inside objects allocated during the call.  Config ts (ENABLE_MMC=0, ENABLE_MZD_CACHE=0). */
#include "verif.h"
#ifndef VSEED
#define VSEED 1
#endif

void scen(mzd_t *A, mzd_t *B, mzd_t *C, mzp_t *P, mzp_t *Q)
  __CPROVER_assigns(__CPROVER_object_whole(A), __CPROVER_object_whole(A->data),
                    __CPROVER_object_whole(B), __CPROVER_object_whole(B->data),
                    __CPROVER_object_whole(C), __CPROVER_object_whole(C->data),
                    __CPROVER_object_whole(P), __CPROVER_object_whole(P->values),
                    __CPROVER_object_whole(Q), __CPROVER_object_whole(Q->values))
  __CPROVER_frees()
{
#if SCEN == 0
  mzd_add(C, A, B);
#elif SCEN == 1
  mzd_mul_naive(C, A, B);
#elif SCEN == 2
  mzd_mul_m4rm(C, A, B, 0);
#elif SCEN == 3
  mzd_addmul(C, A, B, 0);
#elif SCEN == 4
  mzd_transpose(C, A);
#elif SCEN == 5
  mzd_echelonize_m4ri(A, 1, 0);
#elif SCEN == 6
  mzd_echelonize_pluq(A, 1);
#elif SCEN == 7
  mzd_pluq(A, P, Q, 0);
#elif SCEN == 8
  mzd_trsm_lower_left(A, B, 0); mzd_trsm_upper_left(A, B, 0);
#elif SCEN == 9
  mzd_trsm_upper_right(A, C, 0); mzd_trsm_lower_right(A, C, 0);
#elif SCEN == 10
  mzd_solve_left(A, B, 0, 1);
#elif SCEN == 11
  { mzd_t *K = mzd_kernel_left_pluq(A, 0); if (K) mzd_free(K); }
#elif SCEN == 12
  { mzd_t *I = mzd_inv_m4ri(NULL, A, 0); mzd_free(I); mzd_trtri_upper(A); }
#elif SCEN == 13
  { mzd_t *T = mzd_init(3, 70); mzd_t *W = mzd_init_window(T, 1, 64, 3, 70); mzd_free(W); mzd_free(T);
    mzd_apply_p_right(A, Q); mzd_apply_p_left(A, P); mzd_copy(C, A); }
#endif
}

void harness(void) {
  verif_init(8);
  vlcg_seed(VSEED);
  mzd_t *A = mzd_init(AR, AC), *B = mzd_init(BR, BC), *C = mzd_init(CR, CC);
  vfill_mixed(A, APAT0, 0, 0, 0, 0); vfill_mixed(B, 0, 0, 0, 0, 0); vfill_mixed(C, 0, 0, 0, 0, 0);
#ifdef UNITDIAG
  for (int i = 0; i < AR && i < AC; ++i) mzd_write_bit(A, i, i, 1);
#endif
  mzp_t *P = mzp_init(AR), *Q = mzp_init(AC);
  scen(A, B, C, P, Q);
  VDONE();
}
